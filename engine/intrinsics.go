package main

// Harness intrinsics: nondeterministic inputs, assumptions, assertions,
// reachability witnesses, environment controls. The native replay build
// provides ordinary Go bodies for the same names (harness/native_intrinsics.go).

import (
	"encoding/hex"
	"fmt"
	"os"
	"sort"
	"strconv"
	"strings"
	"time"

	"golang.org/x/tools/go/ssa"
)

type ReplayFile struct {
	Property string            `json:"property"`
	Harness  string            `json:"harness"`
	Tier     string            `json:"tier"`
	RepoHead string            `json:"repo_head"`
	Tags     []string          `json:"tags"`
	Values   map[string]uint64 `json:"values"`
	Bytes    map[string]string `json:"bytes"` // hex
	Choices  map[string]int    `json:"choices"`
	Tape     string            `json:"tape"` // hex, bytes served by the random source in order
	Fault    *ReplayFault      `json:"fault,omitempty"`
	Short    []int             `json:"read_lens,omitempty"`
	Expect   string            `json:"expect"`
	Msg      string            `json:"msg"`
	Prefix   []int             `json:"engine_prefix"`
	Known    string            `json:"known_key,omitempty"`
	Repeat   int               `json:"repeat,omitempty"`
	Params   map[string]int    `json:"params,omitempty"`
}

type ReplayFault struct {
	Read int `json:"read"`
	N    int `json:"n"`
}

func (m *Machine) newInput(name, kind string, w int) *Term {
	t := Var("in_"+name, w)
	m.inputs = append(m.inputs, &InputRec{Name: name, Kind: kind, W: w, Terms: []*Term{t}})
	return t
}

func argStr(v Val) string {
	s, ok := v.(*StrV)
	if !ok || !s.Conc() {
		panic("intrinsic: name argument must be a constant string")
	}
	return s.S
}

func argInt(v Val) int {
	t := v.(*Term)
	if !t.IsConst() {
		panic("intrinsic: integer argument must be concrete")
	}
	return int(t.S())
}

func (m *Machine) intrinsic(fn *ssa.Function, args []Val, caller *frame) handler {
	switch fn.Name() {
	case "vU8":
		return func() Val { return m.newInput(argStr(args[0]), "u8", 8) }
	case "vU16":
		return func() Val { return m.newInput(argStr(args[0]), "u16", 16) }
	case "vU32":
		return func() Val { return m.newInput(argStr(args[0]), "u32", 32) }
	case "vU64":
		return func() Val { return m.newInput(argStr(args[0]), "u64", 64) }
	case "vInt":
		return func() Val { return m.newInput(argStr(args[0]), "int", 64) }
	case "vBool":
		return func() Val { return m.newInput(argStr(args[0]), "bool", 0) }
	case "vBytes", "vStr":
		return func() Val {
			name, n := argStr(args[0]), argInt(args[1])
			rec := &InputRec{Name: name, Kind: "bytes", W: 8}
			for i := 0; i < n; i++ {
				rec.Terms = append(rec.Terms, Var(fmt.Sprintf("in_%s_%d", name, i), 8))
			}
			m.inputs = append(m.inputs, rec)
			if fn.Name() == "vStr" {
				return strFromBytes(rec.Terms, false)
			}
			o := m.newObj("vBytes " + name)
			a := &ArrObj{E: make([]*Cell, n), O: o}
			for i := range a.E {
				a.E[i] = &Cell{V: rec.Terms[i], O: o}
			}
			return SliceV{A: a, Len: n, Cap: n}
		}
	case "vLen":
		return func() Val {
			name, lo, hi := argStr(args[0]), argInt(args[1]), argInt(args[2])
			k := lo + m.chooseN(hi-lo+1, "vLen "+name)
			m.inputs = append(m.inputs, &InputRec{Name: name, Kind: "choice", Conc: k})
			return bv64(k)
		}
	case "vChoice":
		return func() Val {
			name, n := argStr(args[0]), argInt(args[1])
			k := m.chooseN(n, "vChoice "+name)
			m.inputs = append(m.inputs, &InputRec{Name: name, Kind: "choice", Conc: k})
			return bv64(k)
		}
	case "vAssume":
		return func() Val {
			c := args[0].(*Term)
			if c.IsConst() {
				if c.IsFalse() {
					panic(&abortPath{"infeasible", "vAssume(false)"})
				}
				return nil
			}
			if m.pos >= len(m.prefix) || true {
				// the assumption may make the path infeasible: check once past the prefix
				if m.pos >= len(m.prefix) {
					if m.checkSat(c, "feasibility") == "unsat" {
						panic(&abortPath{"infeasible", "vAssume"})
					}
				}
			}
			m.assume(c)
			return nil
		}
	case "vAssert":
		return func() Val { m.assert(args[0].(*Term), argStr(args[1])); return nil }
	case "vReach":
		return func() Val { m.res.Reached = append(m.res.Reached, argStr(args[0])); return nil }
	case "vNote":
		return func() Val {
			k := argStr(args[0])
			var v string
			switch x := args[1].(type) {
			case *StrV:
				v = x.String()
			default:
				v = showVal(x)
			}
			m.res.Notes[k] = v
			return nil
		}
	case "vSample":
		return func() Val {
			k := argStr(args[0])
			m.res.Sample[k] = strings.Trim(showVal(args[1]), "\"")
			return nil
		}
	case "vTry":
		return func() Val { return m.try(args[0], caller) }
	case "vPanicMsg":
		return func() Val {
			if m.uncaught != nil {
				return mkStr(m.uncaught.msg)
			}
			return mkStr("")
		}
	case "vSummary":
		return func() Val { m.summary = args[0].(*Term).IsTrue(); return nil }
	case "vReplayDraws":
		// the following draws re-use the values of draws from..(current count-1)
		return func() Val {
			m.replayIdx = argInt(args[0])
			m.replayEnd = len(m.draws)
			return nil
		}
	case "vCoinScript":
		// draws with the constant bound 2 take scripted values from now on
		return func() Val {
			m.coinMode, m.coinFree, m.coinSeen = argInt(args[0]), argInt(args[1]), 0
			return nil
		}
	case "vDrawLimit":
		// more bounded draws than n from now on is reported as a failed assertion
		return func() Val {
			m.drawLimit = len(m.draws) + argInt(args[0])
			m.drawLimitMsg = argStr(args[1])
			return nil
		}
	case "vDrawCount":
		return func() Val { return bv64(len(m.draws)) }
	case "vDraw":
		return func() Val {
			i := argInt(args[0])
			if i < 0 || i >= len(m.draws) {
				m.rtPanic(fmt.Sprintf("vDraw(%d): only %d draws were made", i, len(m.draws)))
			}
			return m.draws[i].D
		}
	case "vDrawN":
		return func() Val {
			i := argInt(args[0])
			if i < 0 || i >= len(m.draws) {
				m.rtPanic("vDrawN out of range")
			}
			return m.draws[i].N
		}
	case "vDrawNIs":
		return func() Val {
			i := argInt(args[0])
			if i < 0 || i >= len(m.draws) {
				return tFalse
			}
			return Eq(m.draws[i].N, args[1].(*Term))
		}
	case "vReads":
		return func() Val { return bv64(m.reads) }
	case "vTapeLen":
		return func() Val {
			if m.rewound {
				return bv64(m.tapePos)
			}
			return bv64(len(m.tape))
		}
	case "vTapeByte":
		return func() Val {
			i := argInt(args[0])
			if i < 0 || i >= len(m.tape) {
				m.rtPanic("vTapeByte out of range")
			}
			return m.tape[i]
		}
	case "vTapeScript":
		return func() Val {
			m.script = nil
			for _, a := range args {
				w := uint32(argInt(a))
				m.script = append(m.script, byte(w>>24), byte(w>>16), byte(w>>8), byte(w))
			}
			return nil
		}
	case "vTapeScriptEnd":
		return func() Val { m.script = nil; return nil }
	case "vFaultAt":
		return func() Val {
			m.fault = &faultSpec{read: m.reads + argInt(args[0]), n: argInt(args[1])}
			return nil
		}
	case "vFaultHit":
		return func() Val { return Bool(m.faultHit) }
	case "vShortReads":
		return func() Val { m.shortReads = args[0].(*Term).IsTrue(); return nil }
	case "vOrderChoice":
		return func() Val { m.orderOn = args[0].(*Term).IsTrue(); return nil }
	case "vBeginCall":
		return func() Val {
			m.epoch = 2
			m.trackWrites = true
			return nil
		}
	case "vEndCall":
		return func() Val {
			m.trackWrites = false
			return nil
		}
	case "vSharedWrites":
		return func() Val { return bv64(len(m.sharedWrites)) }
	case "vOutputs":
		return func() Val { return bv64(len(m.outputs)) }
	case "vTaintedOutputs":
		return func() Val {
			n := 0
			for _, o := range m.outputs {
				if o.Tainted {
					n++
				}
			}
			return bv64(n)
		}
	case "vOutputText":
		return func() Val {
			i := argInt(args[0])
			if i < 0 || i >= len(m.outputs) {
				return mkStr("")
			}
			return mkStr(m.outputs[i].Sink + "|" + m.outputs[i].Text)
		}
	case "vRunMain":
		return func() Val { return m.runMain(args[0].(SliceV), args[1].(*StrV), caller) }
	case "vSecret":
		return func() Val { return nil }
	case "vSharedWriteText":
		return func() Val {
			i := argInt(args[0])
			if i < len(m.sharedWrites) {
				return mkStr(m.sharedWrites[i])
			}
			return mkStr("")
		}
	case "vTainted":
		return func() Val { return Bool(valTainted(args[0], 0)) }
	case "vKnown":
		return func() Val { m.knownKeys = append(m.knownKeys, argStr(args[0])); return nil }
	case "vUseInt":
		return func() Val { m.useInt = args[0].(*Term).IsTrue(); return nil }
	case "vParam":
		return func() Val {
			name, def := argStr(args[0]), argInt(args[1])
			if v, ok := m.cfg.Params[name]; ok {
				return bv64(v)
			}
			return bv64(def)
		}
	case "vIsConcrete":
		return func() Val {
			switch x := args[0].(type) {
			case *Term:
				return Bool(x.IsConst())
			case Iface:
				if t, ok := x.V.(*Term); ok {
					return Bool(t.IsConst())
				}
				if s, ok := x.V.(*StrV); ok {
					return Bool(s.Conc())
				}
			}
			return tTrue
		}
	case "vConcretize":
		return func() Val {
			t := args[0].(*Term)
			v := m.concreteValue(t, "vConcretize")
			return BV(t.W, v)
		}
	case "vSameTerm":
		// structural identity of two symbolic results: used for "same value for
		// every input" claims that need no solver call when the terms coincide
		return func() Val { return valEq(args[0].(Iface).V, args[1].(Iface).V) }
	case "vTapeRewind":
		return func() Val { m.tapePos = 0; m.rewound = true; return nil }
	case "vOr":
		return func() Val { return Or(args[0].(*Term), args[1].(*Term)) }
	case "vAnd":
		return func() Val { return And(args[0].(*Term), args[1].(*Term)) }
	case "vEngine":
		return func() Val { return tTrue }
	}
	panic("unknown intrinsic " + fn.Name())
}

// try runs a closure and reports whether it panicked (Go panic semantics).
func (m *Machine) try(f Val, caller *frame) (ret Val) {
	defer func() {
		if r := recover(); r != nil {
			gp, ok := r.(*goPanic)
			if !ok {
				panic(r)
			}
			m.uncaught = gp
			ret = tTrue
		}
	}()
	m.callValue(f, nil, caller, nil)
	return tFalse
}

// ---- assertions ----

func (m *Machine) assert(c *Term, msg string) {
	if c.IsTrue() {
		m.res.TrivAssert++
		return
	}
	if len(m.alias) > 0 {
		// rewrite the goal with the variable equalities of the path condition
		if c2 := Subst(c, m.alias, map[*Term]*Term{}); c2.IsTrue() {
			m.res.TrivAssert++
			m.res.Notes["goal-closed-by-variable-equalities"] = "yes"
			return
		}
	}
	neg := Not(c)
	res := "unknown"
	var model Model
	// a goal already proved on another path from a subset of this path's
	// assumptions needs no new query
	var pcHashes []uint64
	if m.shared != nil {
		set := make(map[uint64]bool, len(m.pc))
		for _, p := range m.pc {
			set[p.Hash()] = true
			pcHashes = append(pcHashes, p.Hash())
		}
		if m.shared.provenUnder(c.Hash(), set) {
			m.res.Asserts++
			m.res.Notes["assertion-reused-from-a-prefix-path"] = "yes"
			m.assume(c)
			return
		}
	}
	if !neg.IsFalse() {
		res, model = m.decide(neg)
	} else {
		res = "unsat"
	}
	switch res {
	case "unsat":
		m.res.Asserts++
		if m.shared != nil {
			if m.lastFocus != nil {
				// proved from the focused assumptions only: reusable wherever those hold
				var fh []uint64
				for _, p := range m.lastFocus {
					fh = append(fh, p.Hash())
				}
				pcHashes = fh
			}
			m.shared.recordProven(c.Hash(), pcHashes)
		}
		m.lastFocus = nil
	case "sat":
		f := &Failure{Harness: m.cfg.Name, Msg: msg, Kind: "assert", Prefix: append([]int(nil), m.prefix[:m.pos]...)}
		f.Valid = m.validate(model, neg)
		if m.uncaught != nil {
			f.Detail = "last Go panic seen: " + m.uncaught.msg
		}
		if len(m.sharedWrites) > 0 {
			f.Detail += " first write to shared memory: " + m.sharedWrites[0]
		}
		f.Replay = m.buildReplay(model, msg)
		if len(m.knownKeys) > 0 {
			f.Known = m.knownKeys[len(m.knownKeys)-1]
		}
		m.res.Failures = append(m.res.Failures, f)
		if !f.Valid {
			m.res.Inconcl = append(m.res.Inconcl, "model of a failing assertion did not validate: "+msg)
		}
		// keep exploring under the assumption that the assertion holds
		panic(&abortPath{"assertfail", msg})
	default:
		m.res.Inconcl = append(m.res.Inconcl, "assertion undecided (solver unknown/timeout): "+msg)
	}
	m.assume(c)
}

// decide answers whether PC ∧ goal is satisfiable, with a model if so.
func (m *Machine) decide(goal *Term) (string, Model) {
	vars := m.allVars(goal)
	if m.useInt && len(m.intSol) > 0 {
		return m.decideInt(goal, vars)
	}
	m.sol.Push()
	m.sol.Assert(goal)
	t0 := time.Now()
	r := m.sol.Check("assert", m.cfg.AssertTimeout)
	if d := time.Since(t0); slowLog > 0 && d > slowLog {
		cs := goal.String()
		if len(cs) > 1500 {
			cs = cs[:1500]
		}
		fmt.Fprintf(os.Stderr, "SLOW-ASSERT %v %s pc=%d\n   %s\n", d, r, len(m.pc), cs)
	}
	var model Model
	if r == "sat" {
		var ok bool
		model, ok = m.sol.Values(vars)
		if !ok {
			r = "unknown"
		}
	}
	m.sol.Pop()
	if r == "unknown" && len(m.intSol) > 0 {
		return m.decideInt(goal, vars)
	}
	if r != "unknown" && m.xSol != nil {
		// cross-check with the second BV solver
		m.xSol.Push()
		for _, c := range m.pc {
			m.xSol.Assert(c)
		}
		m.xSol.Assert(goal)
		r2 := m.xSol.Check("assert-xcheck", m.cfg.AssertTimeout)
		m.xSol.Pop()
		if r2 != "unknown" && r2 != r {
			m.res.Inconcl = append(m.res.Inconcl, fmt.Sprintf("solvers disagree (%s: %s, %s: %s)", m.sol.Kind.Name, r, m.xSol.Kind.Name, r2))
			return "unknown", nil
		}
		if r2 == "unknown" {
			m.res.Notes["xcheck-unknown"] = "some"
		}
	}
	return r, model
}

// decideInt sends PC ∧ goal to the INT back ends. Unprintable PC conjuncts are
// dropped only when that is sound (proving unsat with fewer assumptions is
// still unsat; a sat answer is accepted only if nothing was dropped and the
// model validates).
func (m *Machine) decideInt(goal *Term, vars map[string]*Term) (string, Model) {
	// first a focused query: only the assumptions that speak about the goal's
	// own variables (fewer assumptions: an unsat answer carries over)
	gv := goal.FreeVars()
	rel := map[string]bool{}
	for n := range gv {
		rel[n] = true
	}
	// one round of widening: variables of the conjuncts that touch the goal's variables
	for _, c := range m.pc {
		touches := false
		for n := range c.FreeVars() {
			if _, ok := gv[n]; ok {
				touches = true
				break
			}
		}
		if touches {
			for n := range c.FreeVars() {
				rel[n] = true
			}
		}
	}
	var focus []*Term
	for _, c := range m.pc {
		inside := true
		for n := range c.FreeVars() {
			if !rel[n] {
				inside = false
				break
			}
		}
		if inside {
			focus = append(focus, c)
		}
	}
	if len(focus) < len(m.pc) {
		for i := len(m.intSol) - 1; i >= 0; i-- {
			s := m.intSol[i]
			s.Push()
			ok := true
			for _, c := range focus {
				if err := s.Assert(c); err != nil {
					continue
				}
			}
			if err := s.Assert(goal); err != nil {
				ok = false
			}
			r := "unknown"
			if ok {
				r = s.Check("assert-int-focused", 3*time.Second)
			}
			s.Pop()
			if r == "unsat" {
				m.lastFocus = focus
				return "unsat", nil
			}
			if os.Getenv("GOSYM_DEBUG_FOCUS") != "" {
				fmt.Fprintf(os.Stderr, "FOCUS %s: %d of %d conjuncts; goal vars %v\n", r, len(focus), len(m.pc), sortedVarNames(gv))
			}
		}
	}
	m.lastFocus = nil
	final := "unknown"
	var fmodel Model
	answered := map[int]bool{}
	// pass 1: short time limit on each back end; pass 2: the full limit on
	// those that did not answer. Without cross-checking the first definite
	// answer is taken.
	for pass, limit := range []time.Duration{3 * time.Second, m.cfg.AssertTimeout} {
		for i := len(m.intSol) - 1; i >= 0; i-- {
			s := m.intSol[i]
			if answered[i] || (final != "unknown" && !m.cfg.CrossCheck) {
				continue
			}
			if pass == 1 && final != "unknown" && limit > 10*time.Second {
				limit = 10 * time.Second // cross-check only: do not wait long for a second opinion
			}
			s.Push()
			dropped := 0
			for _, c := range m.pc {
				if err := s.Assert(c); err != nil {
					dropped++
				}
			}
			if err := s.Assert(goal); err != nil {
				s.Pop()
				m.res.Notes["int-unprintable-goal"] = err.Error()
				answered[i] = true
				continue
			}
			r := s.Check("assert-int", limit)
			var model Model
			if r == "sat" {
				if dropped > 0 {
					r = "unknown"
				} else {
					var ok bool
					model, ok = s.Values(vars)
					if !ok {
						r = "unknown"
					}
				}
			}
			s.Pop()
			if r == "unknown" {
				continue
			}
			answered[i] = true
			if final == "unknown" {
				final, fmodel = r, model
			} else if final != r {
				m.res.Inconcl = append(m.res.Inconcl, "INT solvers disagree")
				return "unknown", nil
			}
		}
	}
	if len(answered) >= 2 {
		m.res.Notes["int-xchecked"] = "yes"
	} else if m.cfg.CrossCheck && final != "unknown" {
		m.res.Notes["int-xcheck-second-solver-unknown"] = "some"
	}
	return final, fmodel
}

func (m *Machine) allVars(goal *Term) map[string]*Term {
	vars := map[string]*Term{}
	for _, c := range m.pc {
		for k, v := range c.FreeVars() {
			vars[k] = v
		}
	}
	for k, v := range goal.FreeVars() {
		vars[k] = v
	}
	for _, in := range m.inputs {
		for _, t := range in.Terms {
			vars[t.Name] = t
		}
	}
	for _, t := range m.tape {
		for k, v := range t.FreeVars() {
			vars[k] = v
		}
	}
	return vars
}

// validate re-evaluates the path condition and the goal under the model.
func (m *Machine) validate(model Model, goal *Term) bool {
	for _, c := range m.pc {
		if c.Eval(model) != 1 {
			return false
		}
	}
	return goal.Eval(model) == 1
}

func (m *Machine) buildReplay(model Model, msg string) *ReplayFile {
	rf := &ReplayFile{Harness: m.cfg.Name, Values: map[string]uint64{}, Bytes: map[string]string{}, Choices: map[string]int{}, Msg: msg, Expect: "assert:" + msg, Tags: m.prog.tags, RepoHead: m.prog.repoHead}
	for _, in := range m.inputs {
		switch in.Kind {
		case "choice":
			rf.Choices[in.Name] = in.Conc
		case "bytes":
			bs := make([]byte, len(in.Terms))
			for i, t := range in.Terms {
				bs[i] = byte(t.Eval(model))
			}
			rf.Bytes[in.Name] = hex.EncodeToString(bs)
		default:
			rf.Values[in.Name] = in.Terms[0].Eval(model)
		}
	}
	tb := make([]byte, len(m.tape))
	for i, t := range m.tape {
		tb[i] = byte(t.Eval(model))
	}
	rf.Tape = hex.EncodeToString(tb)
	if m.fault != nil {
		rf.Fault = &ReplayFault{Read: m.fault.read, N: m.fault.n}
	}
	rf.Prefix = append([]int(nil), m.prefix[:m.pos]...)
	rf.Short = append([]int(nil), m.readLens...)
	rf.Params = map[string]int{}
	for k, v := range m.cfg.Params {
		rf.Params[k] = v
	}
	if m.orderUsed {
		// the counterexample depends on a map iteration order the Go runtime
		// picks at random: the native side repeats the run
		rf.Repeat = 3000
	}
	return rf
}

func sortedKeys(m map[string]int) []string {
	ks := make([]string, 0, len(m))
	for k := range m {
		ks = append(ks, k)
	}
	sort.Strings(ks)
	return ks
}

// runMain executes the program's main() with os.Args set to argv and, when
// file is non-empty, every file read returning that content. It returns what
// the process wrote to standard output, what it wrote to stderr/log, and its
// exit status.
func (m *Machine) runMain(argv SliceV, file *StrV, caller *frame) Val {
	osPkg := m.prog.pkgs["os"]
	g := osPkg.Members["Args"].(*ssa.Global)
	m.storeCell(m.globalCell(g), argv, "os.Args")
	if file.Len() > 0 {
		m.fileContent, m.fileSet = file, true
	} else {
		m.fileContent, m.fileSet = nil, false
	}
	mainFn := m.prog.main.Func("main")
	from := len(m.outputs)
	exit := 0
	func() {
		defer func() {
			if r := recover(); r != nil {
				if ap, ok := r.(*abortPath); ok && ap.kind == "exit" {
					exit, _ = strconv.Atoi(ap.why)
					return
				}
				panic(r)
			}
		}()
		m.callFn(mainFn, nil, nil, caller, nil)
	}()
	stdout, stderr := &StrV{}, &StrV{}
	for _, ev := range m.outputs[from:] {
		s := ev.Str
		if s == nil {
			s = &StrV{S: ev.Text, T: ev.Tainted}
		}
		switch {
		case strings.HasPrefix(ev.Sink, "stdout"):
			stdout = strConcat(stdout, s)
		case ev.Sink == "exit":
		default:
			stderr = strConcat(stderr, s)
		}
	}
	return TupleV{stdout, stderr, bv64(exit)}
}
