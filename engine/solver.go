package main

// SMT back ends. One long-lived solver process per session; terms are sent as
// one define-fun per DAG node, tracked per push/pop scope. Two printers: BV
// (exact QF_BV) and INT (mathematical integers with explicit mod 2^w).

import (
	"bufio"
	"fmt"
	"io"
	"math/big"
	"os"
	"os/exec"
	"strconv"
	"strings"
	"sync"
	"time"
)

type SolverKind struct {
	Name string   // z3 | z3-new | cvc5
	Argv []string // command line
	Int  bool     // INT printer
}

var (
	kindZ3BV    = SolverKind{"z3", []string{"z3", "-in"}, false}
	kindZ3NewBV = SolverKind{"z3-new", []string{"z3-new", "-in"}, false}
	kindCvc5BV  = SolverKind{"cvc5", []string{"cvc5", "--incremental", "--produce-models", "--lang=smt2"}, false}
	kindZ3NewI  = SolverKind{"z3-new/int", []string{"z3-new", "-in"}, true}
	kindCvc5I   = SolverKind{"cvc5/int", []string{"cvc5", "--incremental", "--produce-models", "--lang=smt2"}, true}
)

type scope struct {
	defined map[int64]bool
	vars    map[string]bool
	asserts []*Term
}

type Solver struct {
	Kind   SolverKind
	cmd    *exec.Cmd
	in     io.WriteCloser
	out    *bufio.Reader
	buf    strings.Builder
	scopes []*scope
	dead   bool
	stats  *SolverStats
	errs   []string
}

type SolverStats struct {
	mu       sync.Mutex
	Queries  map[string]int     // kind/result -> count
	Seconds  map[string]float64 // solver name -> wall
	Errors   int
	Restarts int
}

func newSolverStats() *SolverStats {
	return &SolverStats{Queries: map[string]int{}, Seconds: map[string]float64{}}
}

func (st *SolverStats) add(solver, kind, res string, d time.Duration) {
	st.mu.Lock()
	st.Queries[kind+"/"+res]++
	st.Seconds[solver] += d.Seconds()
	st.mu.Unlock()
}

func NewSolver(kind SolverKind, stats *SolverStats) *Solver {
	s := &Solver{Kind: kind, stats: stats}
	s.scopes = []*scope{{defined: map[int64]bool{}, vars: map[string]bool{}}}
	s.start()
	return s
}

func (s *Solver) start() {
	cmd := exec.Command(s.Kind.Argv[0], s.Kind.Argv[1:]...)
	in, _ := cmd.StdinPipe()
	out, _ := cmd.StdoutPipe()
	cmd.Stderr = nil
	if err := cmd.Start(); err != nil {
		panic("cannot start solver " + s.Kind.Name + ": " + err.Error())
	}
	s.cmd, s.in, s.out = cmd, in, bufio.NewReaderSize(out, 1<<16)
	s.dead = false
	s.buf.Reset()
	s.buf.WriteString("(set-option :produce-models true)\n")
	if strings.HasPrefix(s.Kind.Name, "cvc5") {
		if s.Kind.Int {
			s.buf.WriteString("(set-logic QF_NIA)\n")
		} else {
			s.buf.WriteString("(set-logic QF_BV)\n")
		}
	}
}

func (s *Solver) Close() {
	if s.cmd != nil && !s.dead {
		s.in.Close()
		s.cmd.Process.Kill()
		s.cmd.Wait()
		s.dead = true
	}
}

// restart kills the process and re-sends every live scope.
func (s *Solver) restart() {
	s.Close()
	if s.stats != nil {
		s.stats.mu.Lock()
		s.stats.Restarts++
		s.stats.mu.Unlock()
	}
	old := s.scopes
	s.scopes = []*scope{{defined: map[int64]bool{}, vars: map[string]bool{}}}
	s.start()
	for i, sc := range old {
		if i > 0 {
			s.Push()
		}
		for _, a := range sc.asserts {
			s.Assert(a)
		}
	}
}

func (s *Solver) Push() {
	s.buf.WriteString("(push 1)\n")
	s.scopes = append(s.scopes, &scope{defined: map[int64]bool{}, vars: map[string]bool{}})
}

func (s *Solver) Pop() {
	if len(s.scopes) <= 1 {
		panic("solver pop underflow")
	}
	s.buf.WriteString("(pop 1)\n")
	s.scopes = s.scopes[:len(s.scopes)-1]
}

func (s *Solver) Depth() int { return len(s.scopes) - 1 }

func (s *Solver) isDefined(id int64) bool {
	for _, sc := range s.scopes {
		if sc.defined[id] {
			return true
		}
	}
	return false
}

func (s *Solver) varDeclared(n string) bool {
	for _, sc := range s.scopes {
		if sc.vars[n] {
			return true
		}
	}
	return false
}

type unprintable struct{ why string }

func (u unprintable) Error() string { return "unprintable in INT: " + u.why }

// Assert adds t to the current scope. For an INT solver an unprintable term
// returns an error and nothing is asserted.
func (s *Solver) Assert(t *Term) error {
	if t.IsTrue() {
		return nil
	}
	var sb strings.Builder
	ref, err := s.ref(t, &sb)
	if err != nil {
		return err
	}
	s.buf.WriteString(sb.String())
	s.buf.WriteString("(assert " + ref + ")\n")
	top := s.scopes[len(s.scopes)-1]
	top.asserts = append(top.asserts, t)
	return nil
}

func smtName(n string) string { return "|" + n + "|" }

func bvLit(w int, v uint64) string { return fmt.Sprintf("(_ bv%d %d)", v, w) }

func pow2(w int) string {
	return new(big.Int).Lsh(big.NewInt(1), uint(w)).String()
}

// ref returns an SMT expression naming t, emitting definitions into sb.
func (s *Solver) ref(t *Term, sb *strings.Builder) (string, error) {
	top := s.scopes[len(s.scopes)-1]
	switch t.Op {
	case "const":
		if t.W == 0 {
			if t.C == 1 {
				return "true", nil
			}
			return "false", nil
		}
		if s.Kind.Int {
			return strconv.FormatUint(t.C, 10), nil
		}
		return bvLit(t.W, t.C), nil
	case "var":
		if !s.varDeclared(t.Name) {
			top.vars[t.Name] = true
			if t.W == 0 {
				fmt.Fprintf(sb, "(declare-const %s Bool)\n", smtName(t.Name))
			} else if s.Kind.Int {
				fmt.Fprintf(sb, "(declare-const %s Int)\n(assert (and (<= 0 %s) (< %s %s)))\n", smtName(t.Name), smtName(t.Name), smtName(t.Name), pow2(t.W))
			} else {
				fmt.Fprintf(sb, "(declare-const %s (_ BitVec %d))\n", smtName(t.Name), t.W)
			}
		}
		return smtName(t.Name), nil
	}
	name := fmt.Sprintf("n%d", t.id)
	if s.isDefined(t.id) {
		return name, nil
	}
	if s.Kind.Int {
		if x := pow2Pattern(t); x != nil {
			xr, err := s.ref(x, sb)
			if err != nil {
				return "", err
			}
			var alts []string
			alts = append(alts, "(= "+xr+" 0)")
			for j := 0; j < x.W; j++ {
				alts = append(alts, fmt.Sprintf("(= %s %s)", xr, pow2(j)))
			}
			fmt.Fprintf(sb, "(define-fun %s () Bool (or %s))\n", name, strings.Join(alts, " "))
			top.defined[t.id] = true
			return name, nil
		}
	}
	args := make([]string, len(t.Args))
	for i, a := range t.Args {
		r, err := s.ref(a, sb)
		if err != nil {
			return "", err
		}
		args[i] = r
	}
	var body string
	var err error
	if s.Kind.Int {
		body, err = intBody(t, args)
		if err != nil {
			return "", err
		}
	} else {
		body = bvBody(t, args)
	}
	sort := "Bool"
	if t.W > 0 {
		if s.Kind.Int {
			sort = "Int"
		} else {
			sort = fmt.Sprintf("(_ BitVec %d)", t.W)
		}
	}
	fmt.Fprintf(sb, "(define-fun %s () %s %s)\n", name, sort, body)
	top.defined[t.id] = true
	return name, nil
}

// pow2Pattern recognises x&(x-1) == 0 (x is zero or a power of two) and
// returns x. The equivalence is itself proved once per run as a BV query
// (selftest "pow2-peephole").
func pow2Pattern(t *Term) *Term {
	if t.Op != "=" || len(t.Args) != 2 {
		return nil
	}
	a, b := t.Args[0], t.Args[1]
	if a.IsConst() {
		a, b = b, a
	}
	if !b.IsConst() || b.C != 0 || a.Op != "bvand" {
		return nil
	}
	for i := 0; i < 2; i++ {
		x, y := a.Args[i], a.Args[1-i]
		if y.Op == "bvsub" && sameTerm(y.Args[0], x) && y.Args[1].IsConst() && y.Args[1].C == 1 {
			return x
		}
		if y.Op == "bvadd" && sameTerm(y.Args[0], x) && y.Args[1].IsConst() && y.Args[1].C == mask(x.W) {
			return x
		}
	}
	return nil
}

func bvBody(t *Term, a []string) string {
	switch t.Op {
	case "zext":
		return fmt.Sprintf("((_ zero_extend %d) %s)", t.W-t.Args[0].W, a[0])
	case "sext":
		return fmt.Sprintf("((_ sign_extend %d) %s)", t.W-t.Args[0].W, a[0])
	case "extract":
		return fmt.Sprintf("((_ extract %d %d) %s)", t.Hi, t.Lo, a[0])
	}
	return "(" + t.Op + " " + strings.Join(a, " ") + ")"
}

// intBody prints a node over mathematical integers; invariant: a BV-w term
// denotes an Int in [0, 2^w).
func intBody(t *Term, a []string) (string, error) {
	w := t.W
	m := pow2(w)
	switch t.Op {
	case "not", "and", "or", "ite":
		return "(" + t.Op + " " + strings.Join(a, " ") + ")", nil
	case "=":
		return "(= " + a[0] + " " + a[1] + ")", nil
	case "bvult":
		return "(< " + a[0] + " " + a[1] + ")", nil
	case "bvule":
		return "(<= " + a[0] + " " + a[1] + ")", nil
	case "bvslt", "bvsle":
		aw := t.Args[0].W
		h := pow2(aw - 1)
		f := func(x string) string { return fmt.Sprintf("(mod (+ %s %s) %s)", x, h, pow2(aw)) }
		op := "<"
		if t.Op == "bvsle" {
			op = "<="
		}
		return fmt.Sprintf("(%s %s %s)", op, f(a[0]), f(a[1])), nil
	case "bvadd":
		return fmt.Sprintf("(mod (+ %s %s) %s)", a[0], a[1], m), nil
	case "bvsub":
		return fmt.Sprintf("(mod (- %s %s) %s)", a[0], a[1], m), nil
	case "bvmul":
		return fmt.Sprintf("(mod (* %s %s) %s)", a[0], a[1], m), nil
	case "bvneg":
		return fmt.Sprintf("(mod (- %s) %s)", a[0], m), nil
	case "bvnot":
		return fmt.Sprintf("(- %s %s)", new(big.Int).Sub(new(big.Int).Lsh(big.NewInt(1), uint(w)), big.NewInt(1)).String(), a[0]), nil
	case "bvudiv":
		return fmt.Sprintf("(ite (= %s 0) %s (div %s %s))", a[1], new(big.Int).Sub(new(big.Int).Lsh(big.NewInt(1), uint(w)), big.NewInt(1)).String(), a[0], a[1]), nil
	case "bvurem":
		return fmt.Sprintf("(ite (= %s 0) %s (mod %s %s))", a[1], a[0], a[0], a[1]), nil
	case "zext":
		return a[0], nil
	case "extract":
		if t.Lo == 0 {
			return fmt.Sprintf("(mod %s %s)", a[0], pow2(t.Hi+1)), nil
		}
		return fmt.Sprintf("(mod (div %s %s) %s)", a[0], pow2(t.Lo), pow2(t.Hi-t.Lo+1)), nil
	case "concat":
		return fmt.Sprintf("(+ (* %s %s) %s)", a[0], pow2(t.Args[1].W), a[1]), nil
	case "bvshl":
		if t.Args[1].IsConst() {
			if t.Args[1].C >= uint64(w) {
				return "0", nil
			}
			return fmt.Sprintf("(mod (* %s %s) %s)", a[0], pow2(int(t.Args[1].C)), m), nil
		}
	case "bvlshr":
		if t.Args[1].IsConst() {
			if t.Args[1].C >= uint64(w) {
				return "0", nil
			}
			return fmt.Sprintf("(div %s %s)", a[0], pow2(int(t.Args[1].C))), nil
		}
	case "bvand":
		for i := 0; i < 2; i++ {
			c := t.Args[i]
			if c.IsConst() && c.C&(c.C+1) == 0 { // low mask 2^k-1
				k := 0
				for v := c.C; v != 0; v >>= 1 {
					k++
				}
				return fmt.Sprintf("(mod %s %s)", a[1-i], pow2(k)), nil
			}
		}
	case "bvor", "bvxor":
		if nzMask(t.Args[0])&nzMask(t.Args[1]) == 0 {
			return fmt.Sprintf("(+ %s %s)", a[0], a[1]), nil
		}
	}
	return "", unprintable{t.Op}
}

// Check runs check-sat with a per-query time limit. Result: sat | unsat | unknown.
func (s *Solver) Check(kind string, timeout time.Duration) string {
	start := time.Now()
	ms := int(timeout / time.Millisecond)
	if strings.HasPrefix(s.Kind.Name, "cvc5") {
		fmt.Fprintf(&s.buf, "(set-option :tlimit-per %d)\n", ms)
	} else {
		fmt.Fprintf(&s.buf, "(set-option :timeout %d)\n", ms)
	}
	s.buf.WriteString("(check-sat)\n")
	lines, ok := s.roundTrip(timeout*2 + 5*time.Second)
	res := "unknown"
	if !ok {
		s.restart()
	} else {
		for _, l := range lines {
			switch l {
			case "sat", "unsat", "unknown":
				res = l
			}
			if strings.Contains(l, "(error") {
				s.errs = append(s.errs, l)
				if s.stats != nil {
					s.stats.mu.Lock()
					s.stats.Errors++
					s.stats.mu.Unlock()
				}
				res = "unknown"
				break
			}
		}
	}
	if s.stats != nil {
		s.stats.add(s.Kind.Name, kind, res, time.Since(start))
	}
	return res
}

// roundTrip flushes the buffer followed by an echo marker and collects lines.
func (s *Solver) roundTrip(hard time.Duration) ([]string, bool) {
	s.buf.WriteString("(echo \"@@done\")\n")
	text := s.buf.String()
	s.buf.Reset()
	if s.dead {
		return nil, false
	}
	type result struct {
		lines []string
		ok    bool
	}
	ch := make(chan result, 1)
	go func() {
		if _, err := io.WriteString(s.in, text); err != nil {
			ch <- result{nil, false}
			return
		}
		var lines []string
		for {
			l, err := s.out.ReadString('\n')
			if err != nil {
				ch <- result{lines, false}
				return
			}
			l = strings.TrimSpace(l)
			if strings.Trim(l, "\"") == "@@done" {
				ch <- result{lines, true}
				return
			}
			if l != "" {
				lines = append(lines, l)
			}
		}
	}()
	select {
	case r := <-ch:
		return r.lines, r.ok
	case <-time.After(hard):
		if d := os.Getenv("GOSYM_DUMP"); d != "" {
			os.WriteFile(d, []byte(text), 0o644)
		}
		s.cmd.Process.Kill()
		<-ch
		s.cmd.Wait()
		s.dead = true
		return nil, false
	}
}

// Values fetches the model values of the given variables after a sat answer.
func (s *Solver) Values(vars map[string]*Term) (Model, bool) {
	m := Model{}
	names := sortedVarNames(vars)
	var req []string
	for _, n := range names {
		if s.varDeclared(n) {
			req = append(req, n)
		}
	}
	if len(req) == 0 {
		return m, true
	}
	s.buf.WriteString("(get-value (")
	for _, n := range req {
		s.buf.WriteString(smtName(n) + " ")
	}
	s.buf.WriteString("))\n")
	lines, ok := s.roundTrip(30 * time.Second)
	if !ok {
		s.restart()
		return nil, false
	}
	text := strings.Join(lines, " ")
	if strings.Contains(text, "(error") {
		return nil, false
	}
	toks := tokenizeSexp(text)
	// expect: ( ( name value ) ( name value ) ... )
	pos := 0
	if len(toks) == 0 || toks[0] != "(" {
		return nil, false
	}
	pos++
	for pos < len(toks) && toks[pos] == "(" {
		pos++
		name := strings.Trim(toks[pos], "|")
		pos++
		v, np, ok := parseValue(toks, pos)
		if !ok {
			return nil, false
		}
		pos = np
		if toks[pos] != ")" {
			return nil, false
		}
		pos++
		m[name] = v
	}
	return m, true
}

func tokenizeSexp(s string) []string {
	var toks []string
	i := 0
	for i < len(s) {
		c := s[i]
		switch {
		case c == '(' || c == ')':
			toks = append(toks, string(c))
			i++
		case c == ' ' || c == '\t' || c == '\n':
			i++
		case c == '|':
			j := strings.IndexByte(s[i+1:], '|')
			toks = append(toks, s[i:i+j+2])
			i += j + 2
		default:
			j := i
			for j < len(s) && s[j] != '(' && s[j] != ')' && s[j] != ' ' {
				j++
			}
			toks = append(toks, s[i:j])
			i = j
		}
	}
	return toks
}

func parseValue(toks []string, pos int) (uint64, int, bool) {
	t := toks[pos]
	switch {
	case t == "true":
		return 1, pos + 1, true
	case t == "false":
		return 0, pos + 1, true
	case strings.HasPrefix(t, "#x"):
		v, err := strconv.ParseUint(t[2:], 16, 64)
		return v, pos + 1, err == nil
	case strings.HasPrefix(t, "#b"):
		v, err := strconv.ParseUint(t[2:], 2, 64)
		return v, pos + 1, err == nil
	case t == "(":
		// (_ bvN w) or (- N)
		if toks[pos+1] == "_" && strings.HasPrefix(toks[pos+2], "bv") {
			v, err := strconv.ParseUint(toks[pos+2][2:], 10, 64)
			return v, pos + 5, err == nil
		}
		if toks[pos+1] == "-" {
			v, err := strconv.ParseUint(toks[pos+2], 10, 64)
			return uint64(-int64(v)), pos + 4, err == nil
		}
		return 0, pos, false
	default:
		v, err := strconv.ParseUint(t, 10, 64)
		return v, pos + 1, err == nil
	}
}
