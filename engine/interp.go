package main

// The SSA interpreter (DESIGN §3.2/3.3/3.7): executes one path of a harness per
// run; symbolic branches are resolved against a decision prefix and the solver.

import (
	"fmt"
	"go/constant"
	"go/token"
	"go/types"
	"math"
	"math/big"
	"os"
	"strings"
	"sync"
	"time"

	"golang.org/x/tools/go/ssa"
)

// ---- control-flow signals (Go panics used as non-local exits) ----

type goPanic struct {
	v   Val    // the Go panic value (an Iface) when raised by user code
	msg string // description
	rt  bool   // runtime error (index out of range, nil deref, ...)
}

type abortPath struct {
	kind string // infeasible | unmodelled | unwind | concretise | budget | assertfail | done
	why  string
}

type frame struct {
	fn        *ssa.Function
	caller    *frame
	env       map[ssa.Value]Val
	block     *ssa.BasicBlock
	prev      *ssa.BasicBlock
	defers    []deferred
	panicking bool
	pan       *goPanic
	result    Val
	cur       ssa.Instruction
	visits    map[*ssa.BasicBlock]int
}

type deferred struct {
	fn   Val
	args []Val
	inst *ssa.Defer
}

type undoRec struct {
	c   *Cell
	old Val
}

type mapUndo struct {
	m    *MapObj
	ents []*mapEnt
	idx  map[string]*mapEnt
	n    int
	nsym int
}

func (m *Machine) newObj(site string) *Obj {
	m.nextObj++
	return &Obj{id: m.nextObj, epoch: m.epoch, site: site}
}

func (m *Machine) unmodelled(format string, a ...interface{}) {
	panic(&abortPath{"unmodelled", fmt.Sprintf(format, a...)})
}

func (m *Machine) rtPanic(msg string) {
	panic(&goPanic{msg: "runtime error: " + msg, rt: true})
}

// ---- memory access ----

func (m *Machine) noteWrite(o *Obj, what string) {
	if o == nil {
		return
	}
	if o.epoch == 0 && !m.inInit {
		// package-level state: always restored after the path; record as shared write
		if m.trackWrites {
			m.sharedWrites = append(m.sharedWrites, what+" (package-level object "+o.site+")")
		}
		return
	}
	if m.trackWrites && o.epoch < m.epoch {
		m.sharedWrites = append(m.sharedWrites, what+" (object "+o.site+")")
	}
}

func (m *Machine) storeCell(c *Cell, v Val, what string) {
	if c.O != nil {
		if c.O.epoch == 0 && !m.inInit {
			m.undo = append(m.undo, undoRec{c, c.V})
		}
		m.noteWrite(c.O, what)
	}
	// struct/array stores copy into the existing cells so that interior
	// pointers stay valid
	switch nv := v.(type) {
	case *StructV:
		if old, ok := c.V.(*StructV); ok && len(old.F) == len(nv.F) {
			for i := range nv.F {
				m.storeCell(old.F[i], nv.F[i].V, what)
			}
			return
		}
	case *ArrV:
		if old, ok := c.V.(*ArrV); ok && len(old.E) == len(nv.E) {
			for i := range nv.E {
				m.storeCell(old.E[i], nv.E[i].V, what)
			}
			return
		}
	}
	c.V = v
}

func (m *Machine) load(p Val) Val {
	switch x := p.(type) {
	case Ptr:
		if x.C == nil {
			m.rtPanic("invalid memory address or nil pointer dereference")
		}
		return copyVal(x.C.V, nil)
	case SymPtr:
		return m.loadSym(x)
	}
	panic(fmt.Sprintf("load: not a pointer: %T", p))
}

func followPath(v Val, path []int) Val {
	for _, f := range path {
		switch s := v.(type) {
		case *StructV:
			v = s.F[f].V
		case *ArrV:
			v = s.E[f].V
		default:
			panic("followPath: not an aggregate")
		}
	}
	return v
}

// loadSym reads through a pointer with a symbolic element index: scalar
// elements become ite chains, strings of equal length byte-wise ite chains;
// anything else forks over the feasible indices.
func (m *Machine) loadSym(p SymPtr) Val {
	vals := make([]Val, p.N)
	for i := 0; i < p.N; i++ {
		vals[i] = followPath(p.A.E[p.Off+i].V, p.Path)
	}
	return m.selectVals(p.Idx, vals)
}

func (m *Machine) selectVals(idx *Term, vals []Val) Val {
	if len(vals) == 0 {
		m.rtPanic("index out of range")
	}
	tainted := idx.HasVarPrefix("draw", "tape")
	switch vals[0].(type) {
	case *Term:
		ts := make([]*Term, len(vals))
		for i, v := range vals {
			ts[i] = v.(*Term)
		}
		return selectTerm(idx, ts)
	case *StrV:
		// group by length
		lens := map[int]bool{}
		for _, v := range vals {
			lens[v.(*StrV).Len()] = true
		}
		if len(lens) > 1 {
			// fork on the length class
			var classes []int
			seen := map[int]bool{}
			for _, v := range vals {
				l := v.(*StrV).Len()
				if !seen[l] {
					seen[l] = true
					classes = append(classes, l)
				}
			}
			conds := make([]*Term, len(classes))
			for ci, l := range classes {
				c := tFalse
				for i, v := range vals {
					if v.(*StrV).Len() == l {
						c = Or(c, Eq(idx, BV(idx.W, uint64(i))))
					}
				}
				conds[ci] = c
			}
			k := m.chooseCond(conds, "strlen-class")
			l := classes[k]
			// build with defaults for other-length entries (excluded by PC)
			return m.selectStrs(idx, vals, l, tainted)
		}
		for l := range lens {
			return m.selectStrs(idx, vals, l, tainted)
		}
	case *StructV:
		first := vals[0].(*StructV)
		out := &StructV{F: make([]*Cell, len(first.F))}
		for f := range first.F {
			fv := make([]Val, len(vals))
			for i, v := range vals {
				fv[i] = v.(*StructV).F[f].V
			}
			out.F[f] = &Cell{V: m.selectVals(idx, fv)}
		}
		return out
	}
	// generic: fork over feasible index values
	k := m.concretise(idx, len(vals), "symbolic index into non-scalar")
	return copyVal(vals[k], nil)
}

func (m *Machine) selectStrs(idx *Term, vals []Val, l int, tainted bool) Val {
	if l == 0 {
		return &StrV{T: tainted}
	}
	bytes := make([]*Term, l)
	for b := 0; b < l; b++ {
		var ts []*Term
		var ix []int
		for i, v := range vals {
			s := v.(*StrV)
			if s.Len() == l {
				ts = append(ts, s.Byte(b))
				ix = append(ix, i)
			}
		}
		r := ts[len(ts)-1]
		for j := len(ts) - 2; j >= 0; j-- {
			r = Ite(Eq(idx, BV(idx.W, uint64(ix[j]))), ts[j], r)
		}
		bytes[b] = r
	}
	s := strFromBytes(bytes, tainted)
	if !s.Conc() {
		pi := &pickInfo{idx: idx}
		for i, v := range vals {
			if o := v.(*StrV); o.Len() == l && o.Conc() {
				pi.at = append(pi.at, i)
				pi.opts = append(pi.opts, o)
			} else if o.Len() == l {
				pi = nil
				break
			}
		}
		s.P = pi
	}
	return s
}

// mapPick applies a native string function to every option of a pick.
func (m *Machine) mapPick(s *StrV, f func(string) string) Val {
	pi := s.P
	n := 0
	for _, a := range pi.at {
		if a+1 > n {
			n = a + 1
		}
	}
	vals := make([]Val, n)
	filler := &StrV{S: f(pi.opts[0].S)}
	for i := range vals {
		vals[i] = filler // indices of other length classes are excluded by the path condition
	}
	for i, a := range pi.at {
		vals[a] = &StrV{S: f(pi.opts[i].S)}
	}
	return m.selectVals(pi.idx, vals)
}

// selectTerm builds vals[idx] as an ite chain, merging runs of equal constants.
func selectTerm(idx *Term, ts []*Term) *Term {
	type run struct {
		lo, hi int
		t      *Term
	}
	var runs []run
	for i, t := range ts {
		if n := len(runs); n > 0 && sameTerm(runs[n-1].t, t) {
			runs[n-1].hi = i
			continue
		}
		runs = append(runs, run{i, i, t})
	}
	r := runs[len(runs)-1].t
	for j := len(runs) - 2; j >= 0; j-- {
		var c *Term
		if runs[j].lo == runs[j].hi {
			c = Eq(idx, BV(idx.W, uint64(runs[j].lo)))
		} else if runs[j].lo == 0 {
			c = Cmp("bvule", idx, BV(idx.W, uint64(runs[j].hi)))
		} else {
			c = And(Cmp("bvule", BV(idx.W, uint64(runs[j].lo)), idx), Cmp("bvule", idx, BV(idx.W, uint64(runs[j].hi))))
		}
		r = Ite(c, runs[j].t, r)
	}
	return r
}

func (m *Machine) store(p Val, v Val, what string) {
	switch x := p.(type) {
	case Ptr:
		if x.C == nil {
			m.rtPanic("invalid memory address or nil pointer dereference")
		}
		m.storeCell(x.C, copyVal(v, x.C.O), what)
	case SymPtr:
		// weak update of every candidate element
		for i := 0; i < x.N; i++ {
			c := x.A.E[x.Off+i]
			target := c
			for _, f := range x.Path {
				switch s := target.V.(type) {
				case *StructV:
					target = s.F[f]
				case *ArrV:
					target = s.E[f]
				}
			}
			old, ok1 := target.V.(*Term)
			nv, ok2 := v.(*Term)
			if !ok1 || !ok2 {
				k := m.concretise(x.Idx, x.N, "symbolic-index store of non-scalar")
				m.store(m.elemPtr(x.A, x.Off+k, x.Path), v, what)
				return
			}
			m.storeCell(target, Ite(Eq(x.Idx, BV(x.Idx.W, uint64(i))), nv, old), what)
		}
	default:
		panic(fmt.Sprintf("store: not a pointer: %T", p))
	}
}

func (m *Machine) elemPtr(a *ArrObj, i int, path []int) Ptr {
	c := a.E[i]
	for _, f := range path {
		switch s := c.V.(type) {
		case *StructV:
			c = s.F[f]
		case *ArrV:
			c = s.E[f]
		}
	}
	return Ptr{c}
}

// ---- decision points ----

// branch decides a symbolic condition; returns the outcome taken on this path.
func (m *Machine) branch(c *Term, what string) bool {
	if c.IsConst() {
		return c.IsTrue()
	}
	k := m.chooseCond([]*Term{c, Not(c)}, what)
	return k == 0
}

// chooseCond picks one of several mutually exclusive, jointly exhaustive
// conditions; alternatives found feasible are queued as other paths. Decisions
// that follow from the path condition (a conjunct already present, or the
// exact domain of a byte-sized variable) consume no prefix entry and need no
// solver call.
func (m *Machine) chooseCond(conds []*Term, what string) int {
	for i, c := range conds {
		if c.IsTrue() {
			return i
		}
	}
	if len(conds) == 2 {
		if m.known(conds[0]) {
			return 0
		}
		if m.known(conds[1]) {
			return 1
		}
	}
	st := make([]int, len(conds))
	possible, last := 0, -1
	for i, c := range conds {
		if c.IsFalse() {
			st[i] = 2
			continue
		}
		st[i] = m.domainDecide(c)
		if st[i] == 1 {
			return i
		}
		if st[i] != 2 {
			possible++
			last = i
		}
	}
	if possible == 0 {
		panic(&abortPath{"infeasible", what})
	}
	if possible == 1 {
		m.assume(conds[last])
		return last
	}
	if m.pos < len(m.prefix) {
		k := m.prefix[m.pos]
		m.pos++
		m.assume(conds[k])
		return k
	}
	m.checkBudget()
	var feas []int
	for i, c := range conds {
		switch st[i] {
		case 2:
			continue
		case 3:
			feas = append(feas, i)
			m.domDecided++
			continue
		}
		// the last candidate is feasible for free when nothing else was
		if i == last && len(feas) == 0 && m.pcSat {
			feas = append(feas, i)
			break
		}
		if r := m.checkSat(c, "feasibility"); r != "unsat" {
			feas = append(feas, i)
		}
	}
	if len(feas) == 0 {
		panic(&abortPath{"infeasible", what})
	}
	maxDec := 20000
	if v, ok := m.cfg.Params["maxdecisions"]; ok {
		maxDec = v
	}
	if len(m.prefix) >= maxDec {
		m.unwindCut++
		panic(&abortPath{"unwind", fmt.Sprintf("more than %d symbolic decisions on one path (%s)", maxDec, what)})
	}
	base := append([]int(nil), m.prefix...)
	for _, k := range feas[1:] {
		m.spawn = append(m.spawn, append(append([]int(nil), base...), k))
	}
	k := feas[0]
	m.prefix = append(m.prefix, k)
	m.pos++
	m.assume(conds[k])
	m.decisions++
	return k
}

// smallValues lists the distinct values a term over one byte-sized variable
// takes on that variable's domain (nil if not applicable or more than max).
func (m *Machine) smallValues(t *Term, max int) []uint64 {
	v := m.singleByteVar(t)
	if v == nil {
		return nil
	}
	d := m.domOf(v)
	seen := map[uint64]bool{}
	var vals []uint64
	mod := Model{}
	for i := 0; i < m.domSize(v); i++ {
		if !d.has(i) {
			continue
		}
		mod[v.Name] = uint64(i)
		x := t.Eval(mod)
		if !seen[x] {
			seen[x] = true
			vals = append(vals, x)
			if len(vals) > max {
				return nil
			}
		}
	}
	sortU64(vals)
	return vals
}

// splitSmall forks a term over its few possible values (solver-free when the
// variable is independent) and returns the constant chosen on this path.
func (m *Machine) splitSmall(t *Term, vals []uint64, what string) *Term {
	conds := make([]*Term, len(vals))
	for i, v := range vals {
		conds[i] = Eq(t, BV(t.W, v))
	}
	k := m.chooseCond(conds, what)
	return BV(t.W, vals[k])
}

// chooseN is a pure nondeterministic choice among n alternatives (all feasible).
func (m *Machine) chooseN(n int, what string) int {
	if n == 1 {
		return 0
	}
	if m.pos < len(m.prefix) {
		k := m.prefix[m.pos]
		m.pos++
		return k
	}
	m.checkBudget()
	base := append([]int(nil), m.prefix...)
	for k := 1; k < n; k++ {
		m.spawn = append(m.spawn, append(append([]int(nil), base...), k))
	}
	m.prefix = append(m.prefix, 0)
	m.pos++
	return 0
}

// concretise forks over the feasible values of t in [0,n).
func (m *Machine) concretise(t *Term, n int, what string) int {
	if t.IsConst() {
		return int(t.C)
	}
	if sv := m.smallValues(t, m.cfg.MaxConcretise); sv != nil {
		return int(m.splitSmall(t, sv, what).C)
	}
	if n > m.cfg.MaxConcretise {
		m.concretiseCut++
		panic(&abortPath{"concretise", fmt.Sprintf("%s: %d candidate values", what, n)})
	}
	conds := make([]*Term, n)
	for i := range conds {
		conds[i] = Eq(t, BV(t.W, uint64(i)))
	}
	// values outside [0,n) must have been excluded by a prior bounds check
	return m.chooseCond(conds, what)
}

// known reports whether c is (structurally) one of the path-condition conjuncts.
func (m *Machine) known(c *Term) bool {
	for _, p := range m.pcIndex[c.Hash()] {
		if sameTerm(p, c) {
			return true
		}
	}
	return false
}

func (m *Machine) indexPC(c *Term) {
	if m.pcIndex == nil {
		m.pcIndex = map[uint64][]*Term{}
	}
	m.pcIndex[c.Hash()] = append(m.pcIndex[c.Hash()], c)
	if c.Op == "and" {
		m.indexPC(c.Args[0])
		m.indexPC(c.Args[1])
	}
}

// ---- exact domains of byte-sized variables ----

type byteDom [4]uint64

func (d *byteDom) has(v int) bool { return d[v>>6]&(1<<uint(v&63)) != 0 }
func (d *byteDom) del(v int)      { d[v>>6] &^= 1 << uint(v&63) }

// singleByteVar returns the only free variable of c when that variable has a
// small known domain: a byte-sized input, or a bounded draw d < n with a
// concrete n <= 256.
func (m *Machine) singleByteVar(c *Term) *Term {
	fv := c.FreeVars()
	if len(fv) != 1 {
		return nil
	}
	for _, v := range fv {
		if v.W >= 1 && v.W <= 8 {
			return v
		}
		if _, ok := m.varBound[v.Name]; ok {
			return v
		}
	}
	return nil
}

// domSize: number of candidate values of a small-domain variable.
func (m *Machine) domSize(v *Term) int {
	if v.W <= 8 {
		return 1 << uint(v.W)
	}
	return m.varBound[v.Name]
}

func (m *Machine) domOf(v *Term) *byteDom {
	if d, ok := m.dom[v.Name]; ok {
		return d
	}
	d := &byteDom{}
	for i := 0; i < m.domSize(v); i++ {
		d[i>>6] |= 1 << uint(i&63)
	}
	if m.dom == nil {
		m.dom = map[string]*byteDom{}
	}
	m.dom[v.Name] = d
	return d
}

// domainDecide evaluates a condition over a single byte-sized variable on the
// variable's exact domain: 1 = true for every value, 2 = false for every value,
// 3 = both occur and no other conjunct ties the variable to another one,
// 0 = not decidable here.
func (m *Machine) domainDecide(c *Term) int {
	v := m.singleByteVar(c)
	if v == nil {
		return 0
	}
	d := m.domOf(v)
	nt, nf := 0, 0
	mod := Model{}
	for i := 0; i < m.domSize(v); i++ {
		if !d.has(i) {
			continue
		}
		mod[v.Name] = uint64(i)
		if c.Eval(mod) == 1 {
			nt++
		} else {
			nf++
		}
		if nt > 0 && nf > 0 {
			break
		}
	}
	switch {
	case nt > 0 && nf == 0:
		return 1
	case nf > 0 && nt == 0:
		return 2
	case nt > 0 && nf > 0 && !m.multi[v.Name]:
		return 3
	}
	return 0
}

func (m *Machine) narrowDomain(c *Term) {
	if v := m.singleByteVar(c); v != nil {
		d := m.domOf(v)
		mod := Model{}
		for i := 0; i < m.domSize(v); i++ {
			if d.has(i) {
				mod[v.Name] = uint64(i)
				if c.Eval(mod) != 1 {
					d.del(i)
				}
			}
		}
		return
	}
	fv := c.FreeVars()
	if len(fv) > 1 {
		if m.multi == nil {
			m.multi = map[string]bool{}
		}
		for n := range fv {
			m.multi[n] = true
		}
	}
}

func (m *Machine) assume(c *Term) {
	if c.IsTrue() {
		return
	}
	m.indexPC(c)
	m.narrowDomain(c)
	// a variable equality becomes a rewrite rule for later goals
	if c.Op == "=" && c.Args[0].Op == "var" && c.Args[1].Op == "var" && c.Args[0].W == c.Args[1].W {
		a, b := c.Args[0], c.Args[1]
		if m.alias == nil {
			m.alias = map[string]*Term{}
		}
		// resolve through existing aliases; keep the earlier-named variable
		ra, rb := a, b
		if x, ok := m.alias[a.Name]; ok {
			ra = x
		}
		if x, ok := m.alias[b.Name]; ok {
			rb = x
		}
		if ra.Op == "var" && rb.Op == "var" && ra.Name != rb.Name {
			if _, taken := m.alias[rb.Name]; !taken {
				m.alias[rb.Name] = ra
			}
		}
	}
	m.pc = append(m.pc, c)
	if m.sol != nil {
		m.sol.Assert(c)
	}
	if c.IsFalse() {
		panic(&abortPath{"infeasible", "assumed false"})
	}
}

func (m *Machine) checkBudget() {
	if m.shared != nil && m.shared.overBudget() {
		panic(&abortPath{"budget", "path budget exhausted"})
	}
}

// checkSat asks whether PC ∧ c is satisfiable.
func (m *Machine) checkSat(c *Term, kind string) string {
	if c.IsFalse() {
		return "unsat"
	}
	m.sol.Push()
	m.sol.Assert(c)
	t0 := time.Now()
	r := m.sol.Check(kind, m.cfg.FeasTimeout)
	if d := time.Since(t0); slowLog > 0 && d > slowLog {
		cs := c.String()
		if len(cs) > 600 {
			cs = cs[:600]
		}
		fmt.Fprintf(os.Stderr, "SLOW %v %s pc=%d vars=%d fn=%s\n   %s\n", d, r, len(m.pc), len(c.FreeVars()), m.stack[len(m.stack)-1], cs)
	}
	m.sol.Pop()
	return r
}

var slowLog = func() time.Duration {
	if v := os.Getenv("GOSYM_SLOW"); v != "" {
		d, _ := time.ParseDuration(v)
		return d
	}
	return 0
}()

// ---- constants ----

func (m *Machine) constVal(c *ssa.Const) Val {
	t := c.Type()
	if c.Value == nil {
		return zero(t, nil)
	}
	if w, signed, ok := intWidth(t); ok {
		if signed {
			v, exact := constant.Int64Val(constant.ToInt(c.Value))
			if !exact {
				panic("const overflow")
			}
			return BV(w, uint64(v))
		}
		v, _ := constant.Uint64Val(constant.ToInt(c.Value))
		return BV(w, v)
	}
	if w, ok := isFloat(t); ok {
		f, _ := constant.Float64Val(c.Value)
		if w == 32 {
			f = float64(float32(f))
		}
		return FloatV{f, w}
	}
	if isBool(t) {
		return Bool(constant.BoolVal(c.Value))
	}
	if isString(t) {
		return mkStr(constant.StringVal(c.Value))
	}
	panic("constVal: unsupported constant type " + t.String())
}

func (fr *frame) get(m *Machine, v ssa.Value) Val {
	switch x := v.(type) {
	case *ssa.Const:
		return m.constVal(x)
	case *ssa.Global:
		return Ptr{m.globalCell(x)}
	case *ssa.Function:
		return &Closure{Fn: x}
	case *ssa.Builtin:
		return x
	}
	r, ok := fr.env[v]
	if !ok {
		panic(fmt.Sprintf("get: no value for %s in %s", v.Name(), fr.fn))
	}
	return r
}

func (m *Machine) globalCell(g *ssa.Global) *Cell {
	if c, ok := m.globals[g]; ok {
		return c
	}
	if g.Pkg != nil && g.Pkg != m.prog.main && !m.prog.initAllow[g.Pkg.Pkg.Path()] && !m.specialGlobal && g.String() != "os.Args" {
		m.unmodelled("global %s of a package whose initialiser is not modelled", g.String())
	}
	o := &Obj{id: 0, epoch: 0, site: "global " + g.String()}
	c := &Cell{V: zero(g.Type().(*types.Pointer).Elem(), o), O: o}
	m.globals[g] = c
	return c
}

// ---- calls ----

func (m *Machine) callValue(fv Val, args []Val, caller *frame, site ssa.Instruction) Val {
	switch f := fv.(type) {
	case *Closure:
		if f == nil {
			m.rtPanic("call of nil function")
		}
		return m.callFn(f.Fn, args, f.Env, caller, site)
	case *ssa.Builtin:
		return m.callBuiltin(f, args, caller, site)
	case preResult:
		return f.v
	}
	panic(fmt.Sprintf("callValue: %T", fv))
}

func (m *Machine) callFn(fn *ssa.Function, args []Val, env []Val, caller *frame, site ssa.Instruction) (ret Val) {
	if h := m.intercept(fn, args, caller, site); h != nil {
		return h()
	}
	if fn.Blocks == nil {
		m.unmodelled("external function without body: %s", fn.String())
	}
	m.depth++
	if m.depth > 400 {
		panic(&abortPath{"unwind", "call depth exceeded in " + fn.String()})
	}
	defer func() { m.depth-- }()
	m.noteFunc(fn)
	m.stack = append(m.stack, fn)
	defer func() { m.stack = m.stack[:len(m.stack)-1] }()
	fr := &frame{fn: fn, caller: caller, env: make(map[ssa.Value]Val, 16)}
	for i, p := range fn.Params {
		fr.env[p] = args[i]
	}
	for i, fv := range fn.FreeVars {
		fr.env[fv] = env[i]
	}
	normal := false
	defer func() {
		if normal {
			return
		}
		r := recover()
		gp, ok := r.(*goPanic)
		if !ok {
			if _, isAbort := r.(*abortPath); !isAbort && m.crash == "" {
				var sb strings.Builder
				for _, f := range m.stack {
					sb.WriteString("    in " + f.String() + "\n")
				}
				if fr.cur != nil {
					sb.WriteString("    at " + fr.cur.String() + " @ " + m.prog.fset.Position(fr.cur.Pos()).String() + "\n")
				}
				m.crash = sb.String()
			}
			panic(r)
		}
		fr.panicking = true
		fr.pan = gp
		m.runDefers(fr)
		if fr.panicking {
			panic(gp)
		}
		// recovered
		if fn.Recover != nil {
			fr.block = fn.Recover
			fr.prev = nil
			m.runBlocks(fr)
			ret = fr.result
		} else {
			ret = zeroResults(fn)
		}
	}()
	fr.block = fn.Blocks[0]
	m.runBlocks(fr)
	normal = true
	return fr.result
}

func zeroResults(fn *ssa.Function) Val {
	res := fn.Signature.Results()
	switch res.Len() {
	case 0:
		return nil
	case 1:
		return zero(res.At(0).Type(), nil)
	}
	return zero(res, nil)
}

func (m *Machine) runDefers(fr *frame) {
	for len(fr.defers) > 0 {
		d := fr.defers[len(fr.defers)-1]
		fr.defers = fr.defers[:len(fr.defers)-1]
		m.callValue(d.fn, d.args, fr, d.inst)
	}
}

func (m *Machine) runBlocks(fr *frame) {
	for {
		if fr.visits == nil {
			fr.visits = map[*ssa.BasicBlock]int{}
		}
		fr.visits[fr.block]++
		limit := m.cfg.Unwind
		if v, ok := m.cfg.Params["unwind:"+fr.fn.Name()]; ok {
			limit = v
		}
		if fr.visits[fr.block] > limit {
			m.unwindCut++
			if m.cfg.Params["unwind_expected"] == 1 {
				panic(&abortPath{"bound", fmt.Sprintf("stated unwinding bound reached: block %d of %s visited more than %d times", fr.block.Index, fr.fn, limit)})
			}
			panic(&abortPath{"unwind", fmt.Sprintf("block %d of %s visited more than %d times", fr.block.Index, fr.fn, limit)})
		}
		next := m.runBlock(fr)
		if next == nil {
			return
		}
		fr.prev = fr.block
		fr.block = next
	}
}

func (m *Machine) runBlock(fr *frame) *ssa.BasicBlock {
	b := fr.block
	// phis first, evaluated simultaneously
	nphi := 0
	if fr.prev != nil {
		var idx = -1
		for i, p := range b.Preds {
			if p == fr.prev {
				idx = i
				break
			}
		}
		var vals []Val
		for _, ins := range b.Instrs {
			phi, ok := ins.(*ssa.Phi)
			if !ok {
				break
			}
			vals = append(vals, fr.get(m, phi.Edges[idx]))
			nphi++
		}
		for i := 0; i < nphi; i++ {
			// keep loop-carried positions concrete when they can take only a
			// few values (e.g. a UTF-8 sequence length read from a table)
			if t, ok := vals[i].(*Term); ok && !t.IsConst() && t.W >= 32 {
				if sv := m.smallValues(t, 8); sv != nil {
					vals[i] = m.splitSmall(t, sv, "phi over a few values")
				}
			}
			fr.env[b.Instrs[i].(*ssa.Phi)] = vals[i]
		}
	}
	for _, ins := range b.Instrs[nphi:] {
		m.steps++
		if m.steps&0x3fff == 0 && m.shared != nil && m.shared.overBudget() {
			panic(&abortPath{"budget", "path or time budget exhausted"})
		}
		fr.cur = ins
		switch x := ins.(type) {
		case *ssa.If:
			c := fr.get(m, x.Cond).(*Term)
			if m.branch(c, "if") {
				return b.Succs[0]
			}
			return b.Succs[1]
		case *ssa.Jump:
			return b.Succs[0]
		case *ssa.Return:
			switch len(x.Results) {
			case 0:
				fr.result = nil
			case 1:
				fr.result = fr.get(m, x.Results[0])
			default:
				tv := make(TupleV, len(x.Results))
				for i, r := range x.Results {
					tv[i] = fr.get(m, r)
				}
				fr.result = tv
			}
			return nil
		case *ssa.Panic:
			v := fr.get(m, x.X)
			panic(&goPanic{v: v, msg: m.panicText(v)})
		default:
			m.exec(fr, ins)
		}
	}
	panic("block without terminator")
}

func (m *Machine) panicText(v Val) string {
	if i, ok := v.(Iface); ok {
		if s, ok := i.V.(*StrV); ok {
			return s.String()
		}
	}
	return showVal(v)
}

func (m *Machine) exec(fr *frame, ins ssa.Instruction) {
	switch x := ins.(type) {
	case *ssa.DebugRef:
	case *ssa.Alloc:
		o := m.newObj(m.siteOf(x, fr))
		fr.env[x] = Ptr{&Cell{V: zero(x.Type().(*types.Pointer).Elem(), o), O: o}}
	case *ssa.UnOp:
		fr.env[x] = m.unop(fr, x)
	case *ssa.BinOp:
		fr.env[x] = m.binop(x.Op, x.X.Type(), fr.get(m, x.X), fr.get(m, x.Y), x.Y.Type())
	case *ssa.Call:
		fr.env[x] = m.doCall(fr, &x.Call, x)
	case *ssa.Defer:
		fn, args := m.prepareCall(fr, &x.Call)
		fr.defers = append(fr.defers, deferred{fn, args, x})
	case *ssa.RunDefers:
		m.runDefers(fr)
	case *ssa.Go:
		m.unmodelled("go statement in %s", fr.fn)
	case *ssa.Store:
		m.store(fr.get(m, x.Addr), fr.get(m, x.Val), "store in "+fr.fn.String())
	case *ssa.FieldAddr:
		fr.env[x] = m.fieldAddr(fr.get(m, x.X), x.Field)
	case *ssa.Field:
		s := fr.get(m, x.X).(*StructV)
		fr.env[x] = copyVal(s.F[x.Field].V, nil)
	case *ssa.IndexAddr:
		fr.env[x] = m.indexAddr(fr.get(m, x.X), fr.get(m, x.Index).(*Term), x.Index.Type())
	case *ssa.Index:
		fr.env[x] = m.index(fr.get(m, x.X), fr.get(m, x.Index).(*Term), x.Index.Type())
	case *ssa.Lookup:
		fr.env[x] = m.lookup(fr, x)
	case *ssa.Slice:
		fr.env[x] = m.slice(fr, x)
	case *ssa.MakeSlice:
		n := m.concInt(fr.get(m, x.Len).(*Term), "make slice len")
		c := m.concInt(fr.get(m, x.Cap).(*Term), "make slice cap")
		if n < 0 || c < n {
			m.rtPanic("makeslice: len out of range")
		}
		if c > 1<<20 {
			m.unmodelled("makeslice of %d elements", c)
		}
		o := m.newObj(m.siteOf(x, fr))
		et := x.Type().Underlying().(*types.Slice).Elem()
		a := &ArrObj{E: make([]*Cell, c), O: o}
		for i := range a.E {
			a.E[i] = &Cell{V: zero(et, o), O: o}
		}
		fr.env[x] = SliceV{A: a, Off: 0, Len: n, Cap: c}
	case *ssa.MakeMap:
		mt := x.Type().Underlying().(*types.Map)
		fr.env[x] = &MapObj{O: m.newObj(m.siteOf(x, fr)), idx: map[string]*mapEnt{}, kt: mt.Key(), vt: mt.Elem()}
	case *ssa.MakeChan:
		sz := m.concInt(fr.get(m, x.Size).(*Term), "channel capacity")
		fr.env[x] = &ChanObj{cap: sz, O: m.newObj(m.siteOf(x, fr))}
	case *ssa.MakeClosure:
		env := make([]Val, len(x.Bindings))
		for i, b := range x.Bindings {
			env[i] = fr.get(m, b)
		}
		fr.env[x] = &Closure{Fn: x.Fn.(*ssa.Function), Env: env}
	case *ssa.MakeInterface:
		fr.env[x] = Iface{T: x.X.Type(), V: fr.get(m, x.X)}
	case *ssa.ChangeInterface:
		fr.env[x] = fr.get(m, x.X)
	case *ssa.ChangeType:
		fr.env[x] = fr.get(m, x.X)
	case *ssa.Convert:
		fr.env[x] = m.convert(fr.get(m, x.X), x.X.Type(), x.Type())
	case *ssa.TypeAssert:
		fr.env[x] = m.typeAssert(fr, x)
	case *ssa.Extract:
		fr.env[x] = fr.get(m, x.Tuple).(TupleV)[x.Index]
	case *ssa.MapUpdate:
		mo := fr.get(m, x.Map).(*MapObj)
		if mo == nil {
			m.rtPanic("assignment to entry in nil map")
		}
		m.mapSet(mo, fr.get(m, x.Key), copyVal(fr.get(m, x.Value), mo.O), "map update in "+fr.fn.String())
	case *ssa.Range:
		fr.env[x] = m.rangeStart(fr, fr.get(m, x.X))
	case *ssa.Next:
		fr.env[x] = m.rangeNext(fr.get(m, x.Iter), x)
	case *ssa.Send:
		ch := fr.get(m, x.Chan).(*ChanObj)
		if ch == nil || ch.closed || len(ch.q) >= ch.cap {
			m.unmodelled("channel send that would block or panic in %s (single logical thread)", fr.fn)
		}
		m.chanPush(ch, fr.get(m, x.X))
	case *ssa.Select:
		fr.env[x] = m.selectStmt(fr, x)
	case *ssa.SliceToArrayPointer:
		m.unmodelled("slice to array pointer in %s", fr.fn)
	default:
		m.unmodelled("instruction %T in %s", ins, fr.fn)
	}
}

var siteCache sync.Map

func (m *Machine) siteOf(ins ssa.Instruction, fr *frame) string {
	if s, ok := siteCache.Load(ins); ok {
		return s.(string)
	}
	s := m.siteOf1(ins, fr)
	siteCache.Store(ins, s)
	return s
}

func (m *Machine) siteOf1(ins ssa.Instruction, fr *frame) string {
	pos := ins.Pos()
	if pos == token.NoPos {
		return fr.fn.String()
	}
	p := m.prog.fset.Position(pos)
	f := p.Filename
	if i := strings.LastIndex(f, "/"); i >= 0 {
		f = f[i+1:]
	}
	return fmt.Sprintf("%s:%d (%s)", f, p.Line, fr.fn.Name())
}

func (m *Machine) concInt(t *Term, what string) int {
	if t.IsConst() {
		return int(t.S())
	}
	// fork over small non-negative values
	m.unmodelled("symbolic %s", what)
	return 0
}

func (m *Machine) fieldAddr(p Val, field int) Val {
	switch x := p.(type) {
	case Ptr:
		if x.C == nil {
			m.rtPanic("invalid memory address or nil pointer dereference")
		}
		return Ptr{x.C.V.(*StructV).F[field]}
	case SymPtr:
		np := x
		np.Path = append(append([]int(nil), x.Path...), field)
		return np
	}
	panic(fmt.Sprintf("fieldAddr on %T", p))
}

// checkIndex emits the bounds check for idx against n; returns a concrete
// index (>=0) or -1 when the index stays symbolic.
func (m *Machine) checkIndex(idx *Term, it types.Type, n int) int {
	_, signed, _ := intWidth(it)
	var inRange *Term
	if idx.W < 64 {
		if signed {
			idx = SExt(idx, 64)
		} else {
			idx = ZExt(idx, 64)
		}
	}
	nn := BV(idx.W, uint64(n))
	if signed {
		inRange = And(Cmp("bvsle", BV(idx.W, 0), idx), Cmp("bvslt", idx, nn))
	} else {
		inRange = Cmp("bvult", idx, nn)
	}
	if !m.branch(inRange, "index in range") {
		m.rtPanic(fmt.Sprintf("index out of range [%s] with length %d", idx, n))
	}
	if idx.IsConst() {
		return int(idx.C)
	}
	return -1
}

func (m *Machine) indexAddr(base Val, idx *Term, it types.Type) Val {
	switch x := base.(type) {
	case SliceV:
		k := m.checkIndex(idx, it, x.Len)
		if k >= 0 {
			return Ptr{x.A.E[x.Off+k]}
		}
		return SymPtr{A: x.A, Off: x.Off, N: x.Len, Idx: idx}
	case Ptr: // pointer to array
		if x.C == nil {
			m.rtPanic("nil pointer dereference")
		}
		a := x.C.V.(*ArrV)
		k := m.checkIndex(idx, it, len(a.E))
		if k >= 0 {
			return Ptr{a.E[k]}
		}
		return SymPtr{A: &ArrObj{E: a.E, O: x.C.O}, Off: 0, N: len(a.E), Idx: idx}
	}
	panic(fmt.Sprintf("indexAddr on %T", base))
}

func (m *Machine) index(base Val, idx *Term, it types.Type) Val {
	switch x := base.(type) {
	case *ArrV:
		k := m.checkIndex(idx, it, len(x.E))
		if k >= 0 {
			return copyVal(x.E[k].V, nil)
		}
		vals := make([]Val, len(x.E))
		for i := range vals {
			vals[i] = x.E[i].V
		}
		return m.selectVals(idx, vals)
	case *StrV:
		k := m.checkIndex(idx, it, x.Len())
		if k >= 0 {
			return x.Byte(k)
		}
		return selectTerm(idx, x.Bytes())
	}
	panic(fmt.Sprintf("index on %T", base))
}

func (m *Machine) lookup(fr *frame, x *ssa.Lookup) Val {
	base := fr.get(m, x.X)
	key := fr.get(m, x.Index)
	if s, ok := base.(*StrV); ok {
		return m.index(s, key.(*Term), x.Index.Type())
	}
	mo := base.(*MapObj)
	var vt types.Type = x.X.Type().Underlying().(*types.Map).Elem()
	var v Val
	found := false
	if mo != nil {
		if e := m.mapFind(mo, key); e != nil {
			v, found = copyVal(e.V, nil), true
		}
	}
	if !found {
		v = zero(vt, nil)
	}
	if x.CommaOk {
		return TupleV{v, Bool(found)}
	}
	return v
}

func (m *Machine) slice(fr *frame, x *ssa.Slice) Val {
	base := fr.get(m, x.X)
	getI := func(v ssa.Value) *Term {
		if v == nil {
			return nil
		}
		t := fr.get(m, v).(*Term)
		return SExt(t, 64)
	}
	lo, hi, mx := getI(x.Low), getI(x.High), getI(x.Max)
	var length, capacity int
	switch b := base.(type) {
	case *StrV:
		length, capacity = b.Len(), b.Len()
	case SliceV:
		length, capacity = b.Len, b.Cap
	case Ptr:
		if b.C == nil {
			m.rtPanic("nil pointer dereference")
		}
		n := len(b.C.V.(*ArrV).E)
		length, capacity = n, n
	}
	if lo == nil {
		lo = BV(64, 0)
	}
	if hi == nil {
		hi = BV(64, uint64(length))
	}
	limit := capacity
	if _, isStr := base.(*StrV); isStr {
		limit = length
	}
	if mx == nil {
		mx = BV(64, uint64(limit))
	}
	ok := And(And(Cmp("bvsle", BV(64, 0), lo), Cmp("bvsle", lo, hi)), And(Cmp("bvsle", hi, mx), Cmp("bvsle", mx, BV(64, uint64(limit)))))
	if !m.branch(ok, "slice bounds") {
		m.rtPanic("slice bounds out of range")
	}
	l := m.concretise(lo, limit+1, "slice low bound")
	h := m.concretise(hi, limit+1, "slice high bound")
	mxi := m.concretise(mx, limit+1, "slice max bound")
	switch b := base.(type) {
	case *StrV:
		return strSlice(b, l, h)
	case SliceV:
		if b.A == nil {
			return SliceV{}
		}
		return SliceV{A: b.A, Off: b.Off + l, Len: h - l, Cap: mxi - l}
	case Ptr:
		a := b.C.V.(*ArrV)
		return SliceV{A: &ArrObj{E: a.E, O: b.C.O}, Off: l, Len: h - l, Cap: mxi - l}
	}
	panic("slice: bad base")
}

func (m *Machine) typeAssert(fr *frame, x *ssa.TypeAssert) Val {
	v := fr.get(m, x.X).(Iface)
	at := x.AssertedType
	ok := false
	var res Val
	if v.T != nil {
		if it, isI := at.Underlying().(*types.Interface); isI {
			ok = types.Implements(v.T, it)
			res = v
		} else {
			ok = types.Identical(v.T, at)
			res = v.V
		}
	}
	if x.CommaOk {
		if !ok {
			res = zero(at, nil)
		}
		return TupleV{res, Bool(ok)}
	}
	if !ok {
		tn := "nil"
		if v.T != nil {
			tn = v.T.String()
		}
		m.rtPanic(fmt.Sprintf("interface conversion: interface is %s, not %s", tn, at))
	}
	return res
}

// ---- maps ----

func (m *Machine) mapFind(mo *MapObj, key Val) *mapEnt {
	ks, conc := keyString(key)
	if conc {
		if e, ok := mo.idx[ks]; ok && !e.deleted {
			return e
		}
		if mo.nsym == 0 {
			return nil
		}
	}
	for _, e := range mo.ents {
		if e.deleted {
			continue
		}
		if conc && e.conc {
			continue // would have been found through idx
		}
		c := valEq(key, e.K)
		if m.branch(c, "map key equality") {
			return e
		}
	}
	return nil
}

// chanPush / chanPop: buffered-channel operations of the single logical thread.
// A channel made by a package initialiser is restored after the path.
func (m *Machine) chanTouch(ch *ChanObj, what string) {
	if ch.O != nil {
		if ch.O.epoch == 0 && !m.inInit {
			m.chanUndos = append(m.chanUndos, chanUndo{ch, append([]Val(nil), ch.q...), ch.closed})
		}
		m.noteWrite(ch.O, what)
	}
}

func (m *Machine) chanPush(ch *ChanObj, v Val) {
	m.chanTouch(ch, "channel send")
	ch.q = append(ch.q, v)
}

func (m *Machine) chanPop(ch *ChanObj) Val {
	m.chanTouch(ch, "channel receive")
	v := ch.q[0]
	ch.q = ch.q[1:]
	return v
}

type chanUndo struct {
	ch     *ChanObj
	q      []Val
	closed bool
}

// selectStmt: the ready cases of a select in the single logical thread. With
// several ready cases the choice is a fork (the runtime picks at random).
func (m *Machine) selectStmt(fr *frame, x *ssa.Select) Val {
	var ready []int
	for i, st := range x.States {
		ch, _ := fr.get(m, st.Chan).(*ChanObj)
		if ch == nil {
			continue
		}
		if st.Dir == types.SendOnly {
			if !ch.closed && len(ch.q) < ch.cap {
				ready = append(ready, i)
			}
		} else if len(ch.q) > 0 || ch.closed {
			ready = append(ready, i)
		}
	}
	idx := -1
	if len(ready) > 0 {
		idx = ready[m.chooseN(len(ready), "select: ready case")]
	} else if x.Blocking {
		m.unmodelled("select would block in %s (single logical thread)", fr.fn)
	}
	res := TupleV{BV(64, uint64(int64(idx))), tFalse}
	for i, st := range x.States {
		if st.Dir == types.SendOnly {
			if i == idx {
				m.chanPush(fr.get(m, st.Chan).(*ChanObj), fr.get(m, st.Send))
			}
			continue
		}
		et := st.Chan.Type().Underlying().(*types.Chan).Elem()
		if i == idx {
			ch := fr.get(m, st.Chan).(*ChanObj)
			if len(ch.q) > 0 {
				res = append(res, m.chanPop(ch))
				res[1] = tTrue
			} else {
				res = append(res, zero(et, nil))
			}
		} else {
			res = append(res, zero(et, nil))
		}
	}
	return res
}

func (m *Machine) saveMap(mo *MapObj) {
	if mo.O != nil && mo.O.epoch == 0 && !m.inInit {
		idx := make(map[string]*mapEnt, len(mo.idx))
		for k, v := range mo.idx {
			idx[k] = v
		}
		m.mapUndos = append(m.mapUndos, mapUndo{mo, append([]*mapEnt(nil), mo.ents...), idx, mo.n, mo.nsym})
	}
}

// cowEnt prepares an in-place change of an entry of a package-level map: the
// map is snapshotted for the end-of-path restore and the entry is replaced by
// a private copy (the snapshot keeps the original, unchanged, entry).
func (m *Machine) cowEnt(mo *MapObj, e *mapEnt) *mapEnt {
	m.saveMap(mo)
	ne := *e
	for i := range mo.ents {
		if mo.ents[i] == e {
			mo.ents[i] = &ne
			break
		}
	}
	if e.conc {
		mo.idx[e.ks] = &ne
	}
	return &ne
}

func (m *Machine) mapSet(mo *MapObj, key, v Val, what string) {
	m.noteWrite(mo.O, what)
	if e := m.mapFind(mo, key); e != nil {
		if mo.O != nil && mo.O.epoch == 0 && !m.inInit {
			e = m.cowEnt(mo, e)
		}
		e.V = v
		return
	}
	m.saveMap(mo)
	ks, conc := keyString(key)
	e := &mapEnt{K: key, V: v, ks: ks, conc: conc}
	mo.ents = append(mo.ents, e)
	mo.n++
	if conc {
		mo.idx[ks] = e
	} else {
		mo.nsym++
	}
}

func (m *Machine) mapDelete(mo *MapObj, key Val, what string) {
	if mo == nil {
		return
	}
	m.noteWrite(mo.O, what)
	if e := m.mapFind(mo, key); e != nil {
		if mo.O != nil && mo.O.epoch == 0 && !m.inInit {
			e = m.cowEnt(mo, e)
		}
		e.deleted = true
		mo.n--
		if e.conc {
			delete(mo.idx, e.ks)
		} else {
			mo.nsym--
		}
	}
}

func (m *Machine) rangeStart(fr *frame, v Val) Val {
	switch x := v.(type) {
	case *MapObj:
		it := &mapIter{m: x}
		if x != nil {
			for _, e := range x.ents {
				if !e.deleted {
					it.ents = append(it.ents, e)
				}
			}
			if m.orderChoice(fr.fn) {
				m.orderUsed = true
				n := len(it.ents)
				maxPerm := m.cfg.MaxPermute
				if v, ok := m.cfg.Params["maxpermute"]; ok {
					maxPerm = v
				}
				if n >= 2 && n <= maxPerm {
					it.perm = true
				} else if n > maxPerm {
					if m.chooseN(2, "map order: insertion/reverse") == 1 {
						for i, j := 0, n-1; i < j; i, j = i+1, j-1 {
							it.ents[i], it.ents[j] = it.ents[j], it.ents[i]
						}
					}
				}
			}
		}
		return it
	case *StrV:
		return &strIter{s: x}
	}
	panic(fmt.Sprintf("range over %T", v))
}

func (m *Machine) rangeNext(iter Val, x *ssa.Next) Val {
	switch it := iter.(type) {
	case *mapIter:
		for {
			// skip entries deleted since the range began
			if it.perm {
				live := it.ents[:0:0]
				for _, e := range it.ents[it.pos:] {
					if !e.deleted {
						live = append(live, e)
					}
				}
				it.ents = append(it.ents[:it.pos:it.pos], live...)
			} else {
				for it.pos < len(it.ents) && it.ents[it.pos].deleted {
					it.pos++
				}
			}
			if it.pos >= len(it.ents) {
				kt, vt := it.kvTypes(x)
				return TupleV{tFalse, zero(kt, nil), zero(vt, nil)}
			}
			rem := len(it.ents) - it.pos
			k := 0
			if it.perm && rem > 1 {
				k = m.chooseN(rem, "map iteration order")
			}
			it.ents[it.pos], it.ents[it.pos+k] = it.ents[it.pos+k], it.ents[it.pos]
			e := it.ents[it.pos]
			it.pos++
			return TupleV{tTrue, e.K, copyVal(e.V, nil)}
		}
	case *strIter:
		if it.pos >= it.s.Len() {
			return TupleV{tFalse, BV(64, 0), BV(32, 0)}
		}
		if !it.s.Conc() {
			r, size := m.decodeRuneSym(it.s, it.pos)
			p := it.pos
			it.pos += size
			return TupleV{tTrue, BV(64, uint64(p)), r}
		}
		s := it.s.S[it.pos:]
		var r rune
		var size int
		for i, c := range s {
			_ = i
			r = c
			break
		}
		size = len(string(r))
		if r == 0xFFFD {
			// distinguish a real U+FFFD from an invalid byte
			if !strings.HasPrefix(s, "�") {
				size = 1
			}
		}
		p := it.pos
		it.pos += size
		return TupleV{tTrue, BV(64, uint64(p)), BV(32, uint64(uint32(r)))}
	}
	panic("rangeNext: bad iterator")
}

func (it *mapIter) kvTypes(x *ssa.Next) (types.Type, types.Type) {
	if it.m != nil {
		return it.m.kt, it.m.vt
	}
	tup := x.Type().(*types.Tuple)
	kt, vt := tup.At(1).Type(), tup.At(2).Type()
	if b, ok := kt.(*types.Basic); ok && b.Kind() == types.Invalid {
		kt = types.Typ[types.Bool]
	}
	if b, ok := vt.(*types.Basic); ok && b.Kind() == types.Invalid {
		vt = types.Typ[types.Bool]
	}
	return kt, vt
}

// decodeRuneSym decodes one rune from symbolic bytes: ASCII directly, anything
// else through the real utf8.DecodeRuneInString executed from its SSA (its
// branches fork on the byte classes; an invalid byte yields U+FFFD, width 1).
func (m *Machine) decodeRuneSym(s *StrV, pos int) (*Term, int) {
	b0 := s.Byte(pos)
	if m.branch(Cmp("bvult", b0, BV(8, 0x80)), "range-string: ascii") {
		return ZExt(b0, 32), 1
	}
	up := m.prog.pkgs["unicode/utf8"]
	if up == nil {
		m.unmodelled("range over a string with symbolic non-ASCII bytes")
	}
	f := up.Func("DecodeRuneInString")
	res := m.callFn(f, []Val{strSlice(s, pos, s.Len())}, nil, nil, nil).(TupleV)
	size := res[1].(*Term)
	if !size.IsConst() {
		sz := m.concretise(size, 5, "rune width")
		return res[0].(*Term), sz
	}
	return res[0].(*Term), int(size.C)
}

// ---- numeric conversion helpers used by extern.go ----

func f32(v float64) float64 { return float64(float32(v)) }

func bigOf(m *Machine, p Val) *big.Int {
	c := p.(Ptr).C
	if c == nil {
		m.rtPanic("nil *big.Int")
	}
	if b, ok := m.big.ints[c]; ok {
		return b
	}
	b := new(big.Int)
	m.big.ints[c] = b
	return b
}

func bigFloatOf(m *Machine, p Val) *big.Float {
	c := p.(Ptr).C
	if c == nil {
		m.rtPanic("nil *big.Float")
	}
	if b, ok := m.big.floats[c]; ok {
		return b
	}
	b := new(big.Float)
	m.big.floats[c] = b
	return b
}

var _ = math.Inf
