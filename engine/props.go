package main

// The per-property harness tables: which harnesses decide a property, with
// which bounds in each tier (the bounds are parameters the harness reads with
// vParam and states with vLen/vAssume).

var commonAssume = []string{
	"the executor (gosym), go/ssa v0.29.0 and the SMT solvers are trusted; every sat answer is re-validated by concrete evaluation and native replay, unsat answers are cross-checked on a second solver in the thorough tier",
	"stubs of DESIGN.md §3.6: crypto/rand.Read fills the buffer with fresh unconstrained bytes (or fails where a harness injects a fault); mutex operations are no-ops in the single logical thread; fmt/log output calls are recorded events",
	"floating point values are concrete on every path (math.Log2 etc. are the native functions)",
}

var h02Bounds = map[string]string{
	"H02":     "recipe family: Allow/Require/Exclude symbolic within the masks given as harness parameters (allowmask/requiremask/excludemask, bits Uppers=1 Lowers=2 Digits=4 Symbols=8 Ambiguous=16); AllowChars and ExcludeChars each one of the first `strings` probe strings (\"\", a, 0a5, é!é, ✓Z, O0, ab, xyz!); RequireSets one of the first `reqsets` probe families (nil, {0}, {a,5é}, {\"\",ab}, {ab,bc}, {✓,!@,Z}, {0123456789}, {aa}, {Il1,0123456789}, {7,7}, {ab,ba}); Length 1..L; MaxTrials 1..T; every draw symbolic (all alphabet indices, all accept/reject patterns)",
	"quick":   "masks 12/4/16, strings 3, reqsets 11, L 2, T 2",
	"thorough": "masks 14/4/20, strings 3, reqsets 11, L 2, T 2; and L = 3 with masks 12/4/16, strings 2, reqsets 6",
	"low-byte-aliases": "AllowChars İš (U+0130, U+0161: characters above U+00FF whose low bytes are '0' and 'a'), ExcludeChars \"\" or a, RequireSets nil, {0}, {a,5é}, Allow/Require within Digits",
	"after-sibling-call": "before the recipe is used, a sibling recipe makes a full call sequence: its required sets joined by \",\", \"\" or \" \", split into single characters, or replaced by sets of the same sizes that are pairwise disjoint resp. nested",
	"outside": "lengths above L, MaxTrials above T, custom strings outside the probe lists; the pre-flight refusal (MaxFailRate is set to 1 by the harness) is C13's subject",
}

var h04Bounds = map[string]string{
	"H04":     "word lists: eleven concrete lists of 1, 2, 3, 5, 7 words (ASCII, non-ASCII, with a word that does not change under title-casing, with a pre-capitalised word, with leading punctuation, with multi-part words, with the empty word); Length 1..L (quick 2, thorough 3) and, on the first two lists with every scheme except 'random', Length 64..66 (thorough 63..70); the five capitalisation schemes and one unknown scheme string; separators: constant \"\", \"-\", \"→\", SFNone, SFDigits1, SFDigitsNoAmbiguous2 and a constructed function over the alphabet é✓!; every draw symbolic",
	"long-random-scheme": "scheme 'random' at Length 64..66 (thorough 63..70) on the one-word list: the coins take the concrete vectors all-heads, all-tails and alternating, with one coin at position 0, 31, 32, 63, 64 or Length-1 (or none) left symbolic - 2^Length coin vectors are not enumerated",
	"outside": "lists of more than 7 words enter only through the bound n = Size(), which C01 covers for every n; lengths above L (in particular above 64); the 18 328-word shipped list is exercised concretely in C16",
}

func propSpecs() map[string]*PropSpec {
	specs := []*PropSpec{
		{
			ID: "C01", Sub: "spg", Level: "model_checking",
			Harnesses: []HSpec{
				{Name: "H01", Int: true, Quick: P{"unwind:randomUint32n": 66, "unwind_expected": 1, "maxdecisions": 90}, Thorough: P{"unwind:randomUint32n": 258, "unwind_expected": 1, "maxdecisions": 290}, Reach: []string{"returned", "after-rejection"}},
				{Name: "H01L", Int: true, Reach: []string{"lemmas"}},
				{Name: "H01P", Reach: []string{"returned"}},
				{Name: "H01Z", Reach: []string{"panicked"}},
				{Name: "H01G", Reach: []string{"guard"}},
				{Name: "H01LB", Int: true, Reach: []string{"lemmas"}},
				{Name: "H01LC", Int: true, Reach: []string{"lemmas"}},
				{Name: "H04", Label: "every-pick-uses-the-kernel", Quick: P{"L": 2, "lists": 4, "seps": 6}, Thorough: P{"L": 3, "lists": 6, "seps": 6}, Reach: []string{"returned", "structure", "capitalised"}},
				{Name: "H02", Label: "every-pick-uses-the-kernel", Quick: P{"allowmask": 4, "requiremask": 4, "excludemask": 0, "strings": 2, "reqsets": 3, "L": 2, "T": 2}, Thorough: P{"allowmask": 12, "requiremask": 4, "excludemask": 16, "strings": 2, "reqsets": 4, "L": 2, "T": 2}, Reach: []string{"returned", "accepted"}},
			},
			Bounds: map[string]string{
				"H01":     "n: every 32-bit value >= 1 that is not a power of two (symbolic); raw words: every value (4 symbolic source bytes each); rejections: every stream with up to K consecutive rejected words, K = 64 quick / 256 thorough (one path per rejection count, the loop is unrolled; longer rejection runs are outside the executed bound)",
				"H01L":    "n, T, q, rho, u symbolic over their full ranges (integer encoding, QF_NIA)",
				"H01P":    "the 32 power-of-two bounds, concrete; raw word symbolic",
				"family":  "the oracle is one of the three classical exactly-uniform samplers (reject the top 2^32 mod n words and take the residue - the pinned code; reject the bottom 2^32 mod n words and take the residue; multiply-shift with rejection of low products below 2^32 mod n), selected by two scripted probe draws with n = 3; each has its counting lemma (H01L, H01LB, H01LC: n and all auxiliary quantities symbolic over their full ranges)",
				"callers": "H04 / H02 (C04's and C02's harnesses at small bounds): every pick of a word, position, coin or character is exactly one call of the bounded draw with the number of alternatives as its bound, and no source byte is consumed outside it",
				"outside": "more than K consecutive rejections (probability < 2^-K); quality of the OS source (source bytes are assumed independent and uniform)",
			},
			Assume: append([]string{"the oracle is the maximal sampler of its family (exactly 2^32 mod n raw words rejected): a sampler that rejects more words than necessary, or an exactly uniform sampler outside the three families of H01, would be reported and has to be judged by hand"}, commonAssume...),
		},
		{
			ID: "C02", Sub: "spg", Level: "model_checking",
			Harnesses: []HSpec{
				{Name: "H02", Quick: P{"allowmask": 12, "requiremask": 4, "excludemask": 16, "strings": 3, "reqsets": 11, "L": 2, "T": 2},
					Thorough: P{"allowmask": 14, "requiremask": 4, "excludemask": 20, "strings": 3, "reqsets": 11, "L": 2, "T": 2},
					Reach:    []string{"returned", "accepted", "accepted-after-retry", "exhausted", "empty-alphabet"}},
				{Name: "H02", Label: "length-3", ThoroughOnly: true, Thorough: P{"allowmask": 12, "requiremask": 4, "excludemask": 16, "strings": 2, "reqsets": 6, "Lmin": 3, "L": 3, "T": 2},
					Reach: []string{"returned", "accepted", "accepted-after-retry"}},
				{Name: "H02", Label: "low-byte-aliases", Quick: P{"allowmask": 4, "requiremask": 4, "excludemask": 0, "stringmin": 8, "strings": 9, "xstrings": 2, "reqsets": 3, "L": 2, "T": 2}, Thorough: P{"allowmask": 6, "requiremask": 6, "excludemask": 16, "stringmin": 8, "strings": 9, "xstrings": 3, "reqsets": 3, "L": 2, "T": 2}, Reach: []string{"returned", "accepted", "accepted-after-retry"}},
				{Name: "H02", Label: "after-sibling-call", Quick: P{"allowmask": 4, "requiremask": 0, "excludemask": 16, "strings": 2, "reqsets": 11, "L": 1, "T": 1, "primes": 7}, Thorough: P{"allowmask": 4, "requiremask": 4, "excludemask": 16, "strings": 3, "reqsets": 11, "L": 2, "T": 2, "primes": 7}, Reach: []string{"returned", "primed"}},
				{Name: "H01", Label: "kernel-contract", Int: true, Quick: P{"unwind:randomUint32n": 5, "unwind_expected": 1, "maxdecisions": 40}, Thorough: P{"unwind:randomUint32n": 10, "unwind_expected": 1, "maxdecisions": 45}, Reach: []string{"returned", "after-rejection"}},
				{Name: "H01P", Label: "kernel-contract", Reach: []string{"returned"}},
			},
			Bounds: h02Bounds,
			Assume: append([]string{"bounded draws are summarised by the kernel contract verified by C01 (a fresh value d < n per call, bound n recorded); a change that bypasses the kernel is executed as written and shows up as a missing draw"}, commonAssume...),
		},
		{
			ID: "C03", Sub: "spg", Level: "model_checking",
			Harnesses: []HSpec{
				{Name: "H02", Quick: P{"allowmask": 12, "requiremask": 4, "excludemask": 16, "strings": 3, "reqsets": 11, "L": 2, "T": 2},
					Thorough: P{"allowmask": 31, "requiremask": 31, "excludemask": 31, "strings": 1, "reqsets": 1, "L": 1, "T": 1},
					Reach:    []string{"returned", "accepted", "empty-alphabet"}},
				{Name: "H02", Label: "long-with-two-required-sets", Quick: P{"allowmask": 0, "requiremask": 0, "excludemask": 0, "strings": 1, "reqsetmin": 4, "reqsets": 5, "Lmin": 26, "L": 26, "T": 2}, Thorough: P{"allowmask": 0, "requiremask": 0, "excludemask": 0, "strings": 1, "reqsetmin": 4, "reqsets": 5, "Lmin": 26, "L": 26, "T": 2}, Reach: []string{"accepted", "accepted-after-retry"}},
				{Name: "H02", Label: "generated-again", Quick: P{"allowmask": 4, "requiremask": 4, "excludemask": 0, "strings": 2, "reqsets": 3, "L": 2, "T": 1, "again": 1}, Thorough: P{"allowmask": 12, "requiremask": 4, "excludemask": 16, "strings": 2, "reqsets": 4, "L": 2, "T": 2, "again": 1}, Reach: []string{"generated-again"}},
				{Name: "H02", Label: "after-sibling-call", Quick: P{"allowmask": 4, "requiremask": 0, "excludemask": 16, "strings": 2, "reqsets": 11, "L": 1, "T": 1, "primes": 7}, Thorough: P{"allowmask": 4, "requiremask": 4, "excludemask": 16, "strings": 3, "reqsets": 11, "L": 2, "T": 2, "primes": 7}, Reach: []string{"returned", "primed"}},
				{Name: "H02", Label: "custom-strings", ThoroughOnly: true, Thorough: P{"allowmask": 12, "requiremask": 4, "excludemask": 16, "strings": 5, "reqsets": 11, "L": 2, "T": 2},
					Reach: []string{"returned", "accepted", "accepted-after-retry"}},
				{Name: "H02", Label: "low-byte-aliases", Quick: P{"allowmask": 4, "requiremask": 4, "excludemask": 0, "stringmin": 8, "strings": 9, "xstrings": 2, "reqsets": 3, "L": 2, "T": 2}, Thorough: P{"allowmask": 6, "requiremask": 6, "excludemask": 16, "stringmin": 8, "strings": 9, "xstrings": 3, "reqsets": 3, "L": 2, "T": 2}, Reach: []string{"returned", "accepted", "accepted-after-retry"}},
			},
			Bounds: h02Bounds,
			Assume: append([]string{"bounded draws are summarised by the kernel contract verified by C01"}, commonAssume...),
		},
		{
			ID: "C04", Sub: "spg", Level: "model_checking",
			Harnesses: []HSpec{
				{Name: "H04", Quick: P{"L": 2}, Thorough: P{"L": 3}, Reach: []string{"returned", "structure", "capitalised"}},
				{Name: "H04", Label: "long", Quick: P{"Lmin": 64, "L": 66, "lists": 2, "schemes": 5, "seps": 2}, Thorough: P{"Lmin": 63, "L": 70, "lists": 2, "schemes": 5, "seps": 2}, Reach: []string{"returned", "structure", "capitalised"}},
				{Name: "H04", Label: "long-random-scheme", Quick: P{"Lmin": 64, "L": 66, "lists": 1, "schememin": 5, "schemes": 6, "seps": 2, "coins": 1}, Thorough: P{"Lmin": 63, "L": 70, "lists": 1, "schememin": 5, "schemes": 6, "seps": 2, "coins": 1}, Reach: []string{"returned", "structure", "capitalised", "scripted-coins"}},
				{Name: "H04", Label: "three-words-all-separators", Quick: P{"Lmin": 3, "L": 4, "lists": 3, "schemes": 4}, Thorough: P{"Lmin": 3, "L": 4, "lists": 4, "schemes": 6}, Reach: []string{"returned", "structure"}},
				{Name: "H04", Label: "after-capitalising-call", Quick: P{"L": 2, "lists": 4, "seps": 3, "prime": 1}, Thorough: P{"L": 3, "lists": 6, "seps": 5, "prime": 1}, Reach: []string{"returned", "structure", "primed"}},
				{Name: "H01", Label: "kernel-contract", Int: true, Quick: P{"unwind:randomUint32n": 5, "unwind_expected": 1, "maxdecisions": 40}, Thorough: P{"unwind:randomUint32n": 10, "unwind_expected": 1, "maxdecisions": 45}, Reach: []string{"returned", "after-rejection"}},
				{Name: "H01P", Label: "kernel-contract", Reach: []string{"returned"}},
			},
			Bounds: h04Bounds,
			Assume: append([]string{"bounded draws are summarised by the kernel contract verified by C01"}, commonAssume...),
		},
		{
			ID: "C05", Sub: "spg", Level: "model_checking",
			Harnesses: []HSpec{
				{Name: "H04", Quick: P{"L": 2}, Thorough: P{"L": 3}, Reach: []string{"returned", "structure", "capitalised"}},
				{Name: "H04", Label: "long", Quick: P{"Lmin": 64, "L": 66, "lists": 2, "schemes": 5, "seps": 2}, Thorough: P{"Lmin": 63, "L": 70, "lists": 2, "schemes": 5, "seps": 2}, Reach: []string{"returned", "structure", "capitalised"}},
				{Name: "H04", Label: "long-random-scheme", Quick: P{"Lmin": 64, "L": 66, "lists": 1, "schememin": 5, "schemes": 6, "seps": 2, "coins": 1}, Thorough: P{"Lmin": 63, "L": 70, "lists": 1, "schememin": 5, "schemes": 6, "seps": 2, "coins": 1}, Reach: []string{"returned", "structure", "capitalised", "scripted-coins"}},
				{Name: "H04", Label: "three-words-all-separators", Quick: P{"Lmin": 3, "L": 4, "lists": 3, "schemes": 4}, Thorough: P{"Lmin": 3, "L": 4, "lists": 4, "schemes": 6}, Reach: []string{"returned", "structure"}},
				{Name: "H04", Label: "after-capitalising-call", Quick: P{"L": 2, "lists": 4, "seps": 3, "prime": 1}, Thorough: P{"L": 3, "lists": 6, "seps": 5, "prime": 1}, Reach: []string{"returned", "structure", "primed"}},
				{Name: "H01", Label: "kernel-contract", Int: true, Quick: P{"unwind:randomUint32n": 5, "unwind_expected": 1, "maxdecisions": 40}, Thorough: P{"unwind:randomUint32n": 10, "unwind_expected": 1, "maxdecisions": 45}, Reach: []string{"returned", "after-rejection"}},
				{Name: "H01P", Label: "kernel-contract", Reach: []string{"returned"}},
			},
			Bounds: h04Bounds,
			Assume: append([]string{"bounded draws are summarised by the kernel contract verified by C01"}, commonAssume...),
		},
		{
			ID: "C06", Sub: "spg", Level: "model_checking",
			Harnesses: []HSpec{
				{Name: "H06w", Quick: P{"L": 2, "lists": 13}, Thorough: P{"L": 3, "lists": 4}, Reach: []string{"compared"}},
				{Name: "H06w", Label: "all-lists", ThoroughOnly: true, Thorough: P{"L": 2, "lists": 13}, Reach: []string{"compared"}},
				{Name: "H06c", Quick: P{"allowmask": 12, "requiremask": 4, "excludemask": 16, "strings": 3, "reqsets": 11, "L": 2}, Thorough: P{"allowmask": 14, "requiremask": 12, "excludemask": 20, "strings": 3, "reqsets": 11, "L": 2}, Reach: []string{"computed", "primed"}},
				{Name: "H06c", Label: "beyond-float64", Quick: P{"allowmask": 6, "requiremask": 4, "excludemask": 0, "strings": 1, "reqsets": 2, "L": 1, "bigL": 1, "primes": 1}, Thorough: P{"allowmask": 6, "requiremask": 4, "excludemask": 0, "strings": 1, "reqsets": 2, "L": 1, "bigL": 1, "primes": 1}, Reach: []string{"computed"}},
				{Name: "H02", Label: "entropy-field", Quick: P{"allowmask": 4, "requiremask": 4, "excludemask": 16, "strings": 2, "reqsets": 6, "L": 2, "T": 2}, Thorough: P{"allowmask": 12, "requiremask": 4, "excludemask": 16, "strings": 3, "reqsets": 11, "L": 2, "T": 2}, Reach: []string{"accepted"}},
				{Name: "H04", Label: "entropy-field", Quick: P{"L": 2, "lists": 13, "seps": 3}, Thorough: P{"L": 3, "lists": 13, "seps": 3}, Reach: []string{"structure"}},
			},
			Bounds: map[string]string{
				"H06w":    "nine word lists (1..7 words; with a word that does not change under title-casing, a pre-capitalised word, leading punctuation, multi-part words), Length 1..L (quick 2; thorough 3 on the first four lists), all schemes, separator none / '-' / SFDigits1; two symbolic runs of Generate per recipe: equal token sequences must come from equal word and separator draws (and equal capitalisation draws when every word is capitalisable); Entropy() against log2 of the number of distinguishable draw vectors read off the draw log",
				"H06c":    "the C02 recipe family: Entropy() against log2 of the exact number of valid strings (reference DP), optionally after a call on a sibling recipe whose RequireSets are re-split (joined by comma / blank, concatenated, one per character)",
				"H02/H04": "Password.Entropy == recipe.Entropy() on every accepted path of the C02 and C04 harnesses",
				"outside": "as C02/C04; the probability statement combines these solver results with C01/C02/C04 (uniform draws) by the counting argument in DESIGN.md §5 C06; log2 is the native math.Log2",
			},
			Assume: append([]string{"bounded draws are summarised by the kernel contract verified by C01"}, commonAssume...),
		},
		{
			ID: "C07", Sub: "spg", Level: "model_checking",
			Harnesses: []HSpec{
				{Name: "H07", Quick: P{"a": 2, "k": 2, "m": 2, "L": 3}, Thorough: P{"a": 2, "k": 3, "m": 2, "L": 3}, Reach: []string{"computed", "overlapping-required-sets", "impossible"}},
				{Name: "H07", Label: "long", Quick: P{"a": 2, "k": 2, "m": 2, "big": 1}, Thorough: P{"a": 2, "k": 3, "m": 2, "big": 1}, Reach: []string{"computed", "overlapping-required-sets"}},
				{Name: "H07", Label: "word-size-boundaries", Quick: P{"a": 2, "k": 2, "m": 2, "big": 2}, Thorough: P{"a": 2, "k": 3, "m": 2, "big": 2}, Reach: []string{"computed", "overlapping-required-sets"}},
				{Name: "H07", Label: "class-flags", Quick: P{"a": 0, "k": 1, "m": 2, "L": 2, "flags": 6}, Thorough: P{"a": 1, "k": 2, "m": 1, "L": 3, "flags": 6}, Reach: []string{"computed", "overlapping-required-sets", "premise-excluded"}},
				{Name: "H07", Label: "after-sibling-call", Quick: P{"a": 1, "k": 2, "m": 2, "L": 2, "primes": 7}, Thorough: P{"a": 2, "k": 2, "m": 2, "L": 3, "primes": 7}, Reach: []string{"computed", "primed"}},
				{Name: "H07", Label: "four-sets", ThoroughOnly: true, Thorough: P{"a": 1, "k": 4, "m": 1, "L": 3}, Reach: []string{"computed", "overlapping-required-sets"}},
			},
			Bounds: map[string]string{
				"H07":     "allowed string of 0..a characters and 0..k required sets of 1..m characters each, every character a symbolic printable-ASCII byte, so every overlap pattern (set partition) of the characters arises as a solver-feasible path; Length 1..L, 1000 and 5000 in the `long` run, 16, 32, 63, 64 and 65 in the `word-size-boundaries` run; class flags none / Require Digits / Allow Digits Exclude Ambiguous / Require Symbols Allow Digits / Require Digits|Ambiguous / Require Ambiguous Allow Digits (overlapping classes) in the `class-flags` run; quick a=2,k=2,m=2,L=3; thorough a=2,k=3,m=2 and k=4 singletons",
				"outside": "more than 4 required sets (the property's upper end of 8 is outside the executed bound), more than 8 distinct custom characters, non-ASCII custom characters (set operations only compare characters for equality); log2 is the native math.Log2 (compared numerically to 8 float32 ulps against an independent route, not proved)",
			},
			Assume: commonAssume,
		},
		{
			ID: "C13", Sub: "spg", Level: "model_checking",
			Harnesses: []HSpec{
				{Name: "H13a", Reach: []string{"refused", "nil-list"}},
				{Name: "H13n", Reach: []string{"refused"}},
				{Name: "H13b", Quick: P{"a": 1, "k": 2, "m": 2, "L": 2, "flags": 1}, Thorough: P{"a": 2, "k": 2, "m": 2, "L": 3, "flags": 1}, Reach: []string{"computed", "comfortably-acceptable", "clearly-unacceptable"}},
				{Name: "H13b", Label: "class-flags", Quick: P{"a": 0, "k": 2, "m": 1, "L": 2, "flags": 3}, Thorough: P{"a": 1, "k": 2, "m": 1, "L": 2, "flags": 4}, Reach: []string{"computed", "comfortably-acceptable", "clearly-unacceptable"}},
				{Name: "H13b", Label: "exclude-chars", Quick: P{"a": 2, "k": 1, "m": 2, "e": 2, "L": 2, "flags": 1}, Thorough: P{"a": 2, "k": 1, "m": 2, "e": 2, "L": 3, "flags": 1}, Reach: []string{"computed"}},
				{Name: "H13b", Label: "beyond-float64", Quick: P{"a": 0, "k": 1, "m": 1, "flags": 4, "bigL": 1}, Thorough: P{"a": 0, "k": 1, "m": 1, "flags": 4, "bigL": 1}, Reach: []string{"computed"}},
				{Name: "H13b", Label: "after-sibling-call", Quick: P{"a": 0, "k": 2, "m": 2, "L": 2, "flags": 1, "primes": 7}, Thorough: P{"a": 0, "k": 2, "m": 2, "L": 3, "flags": 1, "primes": 7}, Reach: []string{"computed", "primed"}},
				{Name: "H02", Label: "retry-budget", Quick: P{"allowmask": 4, "requiremask": 4, "excludemask": 16, "strings": 2, "reqsets": 6, "L": 2, "T": 3}, Thorough: P{"allowmask": 12, "requiremask": 4, "excludemask": 16, "strings": 2, "reqsets": 6, "L": 2, "T": 3}, Reach: []string{"exhausted", "accepted-after-retry"}},
			},
			Bounds: map[string]string{
				"H13a":    "Length symbolic over all 64-bit values < 1 (character and wordlist recipes); empty alphabet with Length 1..3; zero-valued CharRecipe and WLRecipe; WLRecipe without a list",
				"H13b":    "the overlap patterns of C07's family (symbolic characters, including required sets emptied by exclusion), Length 1..L, MaxTrials in {1,3,200}: SuccessProbability against the exact fraction (relative 1e-3), the pre-flight decision outside the band [MaxFailRate/4, 4*MaxFailRate], Generate's refusal for MaxTrials <= 3",
				"H02":     "retry budget: MaxTrials 1..T, all draws symbolic, including the stream on which every attempt fails",
				"outside": "the band within a factor 4 of MaxFailRate (float rounding territory); MaxTrials above 3 for the executed retry loop; a symbolic positive Length cannot pass through the float32 entropy (concrete lengths there)",
			},
			Assume: commonAssume,
		},
		{
			ID: "C08", Sub: "spg", Level: "model_checking",
			Harnesses: []HSpec{
				{Name: "H08", Quick: P{"k": 2, "b": 2, "L": 3}, Thorough: P{"k": 2, "b": 3, "L": 3}, Reach: []string{"computed", "something-dropped", "uncapitalisable-word"}},
				{Name: "H08", Label: "concrete-lists-all-orders", Quick: P{"concrete": 1, "three": 0, "maxpermute": 3, "L": 3}, Thorough: P{"concrete": 1, "three": 1, "maxpermute": 3, "L": 4}, Reach: []string{"computed", "something-dropped", "uncapitalisable-word"}},
			},
			Bounds: map[string]string{
				"H08":     "symbolic run: lists of 1..k words of 1..b symbolic printable-ASCII bytes (quick k=2,b=2; thorough k=2,b=3), built twice from the same input and once from a reversed-and-repeated copy, every map iteration order inside NewWordList a choice point; concrete run: twelve lists with twins, caseless, multi-part, leading-punctuation and non-ASCII words, every order for up to 3 map entries (insertion and reverse above); Length 1..L, the five schemes and an unknown one, separator none / SFDigits1",
				"outside": "lists of more than 2 symbolic words or more than 5 concrete words; iteration orders of maps with more than 3 entries other than insertion order and its reverse; log2 is the native math.Log2",
			},
			Assume: append([]string{"strings.Title on symbolic bytes is modelled for ASCII (byte i is upper-cased iff it is a..z and byte i-1 is absent or not a letter, digit or underscore); on concrete words the native function is used"}, commonAssume...),
		},
		{
			ID: "C10", Sub: "spg", Level: "model_checking",
			Harnesses: []HSpec{
				{Name: "H10", Quick: P{"k": 2, "b": 2}, Thorough: P{"k": 3, "b": 1}, Reach: []string{"built", "generated", "something-dropped"}},
				{Name: "H10", Label: "longer-words", Quick: P{"k": 2, "b": 3, "minb": 3}, Thorough: P{"k": 2, "b": 4, "minb": 3}, Reach: []string{"built", "generated", "something-dropped"}},
				{Name: "H10c", Reach: []string{"built", "something-dropped"}},
				{Name: "H13n", Reach: []string{"refused"}},
			},
			Bounds: map[string]string{
				"H10":     "lists of 1..k words of minb..b symbolic printable-ASCII bytes (quick k=2 with 1..2 and 3-byte words; thorough k=3 single-byte words and k=2 with 3..4-byte words); every iteration order of the maps inside NewWordList; a reversed, a rotated and a first-word-repeated copy of the input; one generated word with a symbolic draw",
				"H10c":    "concrete non-ASCII, caseless and interior-capital lists (twelve lists), every order",
				"outside": "more than 3 symbolic words; symbolic non-ASCII words (strings.Title is modelled on ASCII bytes only; non-ASCII lists are concrete)",
			},
			Assume: append([]string{"strings.Title on symbolic bytes is modelled for ASCII; on concrete words the native function is used"}, commonAssume...),
		},
		{
			ID: "C09", Sub: "spg", Level: "model_checking",
			Harnesses: []HSpec{
				{Name: "H09", Quick: P{"recipes": 3, "reads": 5, "unwind:randomUint32n": 2, "unwind_expected": 1, "maxdecisions": 150}, Thorough: P{"recipes": 5, "reads": 9, "unwind:randomUint32n": 3, "unwind_expected": 1, "maxdecisions": 300}, Reach: []string{"returned", "fault-hit", "no-fault"}},
				{Name: "H09s", Quick: P{"recipes": 3, "unwind:randomUint32n": 2, "unwind_expected": 1, "maxdecisions": 150}, Thorough: P{"recipes": 5, "unwind:randomUint32n": 3, "unwind_expected": 1, "maxdecisions": 300}, Reach: []string{"returned", "generated"}},
				{Name: "H09d", Quick: P{"recipes": 3, "unwind:randomUint32n": 2, "unwind_expected": 1, "maxdecisions": 150}, Thorough: P{"recipes": 5, "unwind:randomUint32n": 2, "unwind_expected": 1, "maxdecisions": 300}, Reach: []string{"same"}},
			},
			Bounds: map[string]string{
				"H09":     "five recipes (two character recipes, one with a requirement and a retry; three wordlist recipes with 'one', 'random', a preset and a constructed separator function); the real kernel on symbolic source bytes with at most one (thorough two) rejected word per draw; a source failure at every read position 0..reads (quick 5, thorough 9) delivering 0..3 bytes",
				"H09s":    "the same recipes with a source that may return any 1..4 bytes per successful Read call",
				"H09d":    "the same recipes run twice on one stream",
				"outside": "generations that need more reads than the bound; more consecutive rejections than stated; the callee inventory beyond what the executed paths reach (an unmodelled environment call stops the path and is reported, then judged by the native determinism run)",
			},
			Assume: commonAssume,
			Extra:  c09NativeDeterminism,
		},
		{
			ID: "C14", Sub: "spg", Level: "model_checking",
			Harnesses: []HSpec{
				{Name: "H14", Quick: P{"unwind:randomUint32n": 2, "unwind_expected": 1, "maxdecisions": 400}, Thorough: P{"unwind:randomUint32n": 3, "unwind_expected": 1, "maxdecisions": 600}, Reach: []string{"called"}},
			},
			Bounds: map[string]string{
				"H14":     "shared values: a CharRecipe with custom required sets (one empty), a WordList, a WLRecipe with scheme 'one' and a constructed separator function whose recipe has a requirement, the seven separator presets; one API call (Generate, Entropy, Alphabet, SuccessProbability, Size, a separator call) followed by a second call, with draws summarised, and three calls with the real kernel on symbolic source bytes; MaxTrials 2",
				"claim":   "sequential non-interference: on every explored path no Store / map update / delete / in-place append executed inside the call targets an object that existed before the call (receiver backing arrays, word list, closure environments, package-level variables). Read-only sharing implies data-race freedom for every interleaving (reasoned, not solved); interleavings are not explored symbolically",
				"confirm": "a path that does write shared memory is a candidate; it is reported only when the native stress test (24 rounds on freshly built values, 8 goroutines released together x 60 calls each, go test -race, results validated) reports a data race or an invalid result; the thorough tier always runs the stress test",
				"outside": "recipes outside the listed shared values; races inside crypto/rand, fmt or golang-set's own locking (assumed goroutine-safe as documented); writes made under a lock are cleared, not convicted, by the native run",
			},
			Assume:  commonAssume,
			Confirm: c14RaceConfirm,
			Extra:   c14RaceAlways,
		},
		{
			ID: "C15", Sub: "spg", Level: "model_checking",
			Harnesses: []HSpec{
				{Name: "H15a", Reach: []string{"called"}},
				{Name: "H15b", Reach: []string{"evaluated"}},
				{Name: "H15w", Reach: []string{"evaluated"}},
				{Name: "H15s", Reach: []string{"called", "first-call-failed", "second-call-good"}},
			},
			Bounds: map[string]string{
				"H15a":    "the shared values of H14; after each of nine API calls the caller's RequireSets slice, the slice passed to NewWordList, the word list and every public field are compared with their values before the call",
				"H15b":    "eight character recipes that differ only in how the required characters are grouped (lookalikes under joining with nothing, a comma or a blank; an empty set in the middle; none): Entropy, Alphabet, SuccessProbability and Generate on a fresh recipe, against the same calls after a full call sequence on any other recipe of the family, with the final recipe either constructed anew or obtained by a caller-side update of RequireSets; the draws of the two Generate calls are aligned by assumption, so equality of the results is a solver query over all draws; MaxTrials 2",
				"H15w":    "five wordlist recipes (scheme, preset separators, a different list), any earlier recipe, then a caller-side update of all fields",
				"outside": "call histories longer than one full call sequence; recipes outside the families",
			},
			Assume: commonAssume,
		},
		{
			ID: "C18", Sub: "spg", Level: "model_checking",
			Harnesses: []HSpec{
				{Name: "H18", Reach: []string{"called", "password", "error"}},
			},
			Bounds: map[string]string{
				"H18":     "eleven generation scenarios (a 256-character random separator; 200 attempts with up to 200 consecutive rejections; character recipe with a requirement: accepted, retried and exhausted with MaxTrials 1..2; non-ASCII alphabet; refused recipes; wordlist recipe with 'random' capitalisation and a constructed separator whose requirement can fail; a word list with a duplicate; entropy and probability queries); every value derived from a random draw is tainted (terms over draw variables, strings chosen through a draw) and every argument of fmt.Print*/Fprint*, log.*, os.File.Write and println is checked on every path; the diagnostics that do occur must be the three known ones",
				"outside": "implicit (control-flow) leaks: a message printed iff a secret has some property; sinks other than the listed ones",
			},
			Assume: commonAssume,
		},
		{
			ID: "C16", Sub: "spg", Level: "model_checking",
			Harnesses: []HSpec{
				{Name: "H16f", Quick: P{"unwind:randomUint32n": 2, "unwind_expected": 1, "maxdecisions": 60}, Thorough: P{"unwind:randomUint32n": 3, "unwind_expected": 1, "maxdecisions": 80}, Reach: []string{"fault-hit"}},
				{Name: "H16a", Quick: P{"maxdecisions": 400}, Thorough: P{"maxdecisions": 400}, Reach: []string{"defaults"}},
				{Name: "H16p", Quick: P{"maxdecisions": 400}, Thorough: P{"maxdecisions": 400}, Reach: []string{"preset", "none"}},
				{Name: "H16l", Reach: []string{"lists"}},
				{Name: "H01", Label: "kernel-contract", Int: true, Quick: P{"unwind:randomUint32n": 5, "unwind_expected": 1, "maxdecisions": 40}, Thorough: P{"unwind:randomUint32n": 10, "unwind_expected": 1, "maxdecisions": 45}, Reach: []string{"returned", "after-rejection"}},
				{Name: "H01P", Label: "kernel-contract", Reach: []string{"returned"}},
			},
			Bounds: map[string]string{
				"H16a":    "the five class flags and the named combinations through Alphabet() of single-class recipes, NewCharRecipe / NewWLRecipe defaults (Length 1..3), MaxTrials, MaxFailRate - compared with literals typed from the documentation",
				"H16p":    "each of the seven exported presets, called after nothing or after two calls of any other preset (sequences matter for shared cached state), with symbolic draws: the output is the character of the documented set selected by the draw, two independent calls give equal separators iff their draws are equal (solver queries), entropy = log2(|set|^length)",
				"H16f":    "each non-empty preset with a source failure at each of its reads delivering 0..3 bytes (real kernel on symbolic source bytes, at most one rejected word per draw)",
				"H16l":    "every entry of AgileWords and AgileSyllables as built by the executed package initialiser against testdata/agwordlist.txt and testdata/agsyllables.txt (read by the driver on every run), lower-case, duplicate-free; NewWordList keeps every entry",
				"outside": "nothing of the property's quantifier is left out; the list comparison and the constants are concrete execution of the initialisers through the same engine, only the preset statements involve the solver",
			},
			Assume: commonAssume,
		},
		{
			ID: "C17", Sub: "opgen", Level: "model_checking",
			Harnesses: []HSpec{
				{Name: "HO17c", Quick: P{"classlists": 5, "lengths": 2}, Thorough: P{"classlists": 8, "lengths": 2}, Reach: []string{"ran", "password", "entropy", "refused"}},
				{Name: "HO17c", Label: "default-length", Quick: P{"classlists": 2, "lengths": 4}, Thorough: P{"classlists": 4, "lengths": 4}, Reach: []string{"ran", "password"}},
				{Name: "HO17w", Reach: []string{"ran", "password", "entropy", "unknown-list"}},
				{Name: "HO17u", Reach: []string{"usage"}},
			},
			Bounds: map[string]string{
				"HO17c":   "opgen characters with --length 1, 8, absent (20) or 200 (entropy only); --allow/--require/--exclude each absent or one of the class lists (digits; uppercase,lowercase; a list with blanks after the commas; a list with an unknown word; three classes with blanks; ambiguous; a list with blanks around the commas); --entropy on/off; main() is executed from its SSA with os.Args set, package flag modelled by its documented contract; the password printed is compared with the password of the documented library recipe on the same (symbolic) random draws; in the engine MaxTrials is 2",
				"HO17w":   "opgen words with --size 1, 3 or absent (4); --file with small files (one with a duplicate word, two with capitalised twins, one whose words contain %) and a 12 000-word file kept on one line of more than 64 KiB or --list absent/words/syllables/unknown; every separator class and an unknown one; every capitalisation scheme and an unknown one; --entropy on/off; generation from the 18 328-word shipped lists with symbolic draws is skipped in the engine (entropy only)",
				"HO17u":   "missing subcommand, unknown subcommand, unknown flag, misspelt flag, malformed integer, flag without its value",
				"outside": "the text-level behaviour of package flag is a model written from its documentation (flag.go is not executed); the process boundary (exit status, stdout/stderr) is the engine's event log, confirmed on the built binary only for counterexamples; other flag spellings and values",
			},
			Assume: append([]string{"package flag (NewFlagSet/Int/String/Bool/Parse with ExitOnError), io/ioutil.ReadFile, os.Exit and log.Fatalln are modelled by their documented contracts"}, commonAssume...),
			Extra:  c17NativeSweep,
		},
		{
			ID: "C11", Sub: "spg", Level: "model_checking",
			Harnesses: []HSpec{
				{Name: "H11a", Quick: P{"t": 3, "b": 3}, Thorough: P{"t": 3, "b": 3, "anytype": 1}, Reach: []string{"indexed", "roundtrip", "non-ascii"}},
				{Name: "H11a", Label: "long-tokens", ThoroughOnly: true, Thorough: P{"t": 2, "b": 5, "anytype": 1}, Reach: []string{"roundtrip", "non-ascii"}},
				{Name: "H11a", Label: "any-type-byte", Quick: P{"t": 3, "b": 1, "anytype": 1}, Thorough: P{"t": 4, "b": 1, "anytype": 1}, Reach: []string{"indexed", "roundtrip"}},
				{Name: "H11a", Label: "arbitrary-bytes", Quick: P{"t": 2, "b": 2, "anytype": 1, "anyutf": 1}, Thorough: P{"t": 2, "b": 3, "anytype": 1, "anyutf": 1}, Reach: []string{"indexed", "roundtrip"}},
				{Name: "H11a", Label: "many-tokens", Quick: P{"t": 5, "b": 1}, Thorough: P{"t": 5, "b": 2}, Reach: []string{"roundtrip"}},
				{Name: "H11b", Reach: []string{"indexed", "roundtrip", "refused"}},
				{Name: "H11c", Quick: P{"L": 2}, Thorough: P{"L": 3}, Reach: []string{"generated", "roundtrip"}},
			},
			Bounds: map[string]string{
				"H11a":    "token sequences of 1..t tokens, each 1..b arbitrary bytes assumed valid UTF-8 (utf8.ValidString executed symbolically, so every mixture of 1- to 4-byte characters arises), type byte symbolic in {0,1} (quick) or any uint8 (thorough); quick t=3,b=3; thorough t=3,b=3 any type, t=2,b=5 any type, t=5,b=2; `any-type-byte`: 1..3 (4) one-byte tokens with any uint8 type; `arbitrary-bytes`: 1..2 tokens of 1..2 (3) arbitrary bytes without the UTF-8 assumption (an invalid byte is one character), any type",
				"H11b":    "one token of 254, 255 and 256 characters (ASCII with symbolic bytes, and two-byte characters with a symbolic second byte), alone or followed by a separator and an atom",
				"outside": "more than 5 tokens; symbolic tokens longer than 5 bytes other than the 254..256-character boundary tokens; H11c runs generated passwords (four word lists incl. non-ASCII, three schemes, five separators incl. a functional non-ASCII one; three character recipes) through the round trip with symbolic draws",
			},
			Assume: commonAssume,
		},
		{
			ID: "C12", Sub: "spg", Level: "model_checking",
			Harnesses: []HSpec{
				{Name: "H12a", Quick: P{"p": 3, "q": 3}, Thorough: P{"p": 4, "q": 4}, Reach: []string{"returned", "accepted", "rejected"}},
				{Name: "H12b", Quick: P{"p": 4, "q": 6}, Thorough: P{"p": 6, "q": 8}, Reach: []string{"returned", "accepted", "rejected"}},
				{Name: "H12c", Quick: P{"q": 3}, Thorough: P{"q": 4}, Reach: []string{"returned", "accepted", "rejected"}},
			},
			Bounds: map[string]string{
				"H12a":    "pw: every byte string of length 0..p (no UTF-8 assumption); index: every byte string of length 0..q; quick p=3,q=3; thorough p=4,q=4",
				"H12b":    "pw: every ASCII byte string of length 0..p; index: every byte string of length 0..q; quick p=4,q=6; thorough p=6,q=8",
				"H12c":    "pw: 63, 64, 65, 255, 256 and 257 characters (all 'a', or with a two-byte character in front); index: kind 0..3 or unknown, then 0..q-1 bytes (q quick 3, thorough 4) each from {0,1,2,3,62,63,64,65,200,254,255}",
				"outside": "strings and indices longer than the bounds; invalid UTF-8 together with an index longer than q(H12a) bytes; entropy is one fixed float32 (it is only copied)",
			},
			Assume: commonAssume,
		},
	}
	m := map[string]*PropSpec{}
	for _, s := range specs {
		m[s.ID] = s
	}
	return m
}
