package main

// Terms: the symbolic scalar values of the executor. Every Go bool and integer
// value is a *Term; a concrete value is a constant term. Constructors fold
// constants and apply a few local simplifications so that purely concrete
// execution never reaches the solver.

import (
	"fmt"
	"math/bits"
	"sort"
	"strings"
	"sync/atomic"
)

type Term struct {
	Op   string // const var | bvadd bvsub bvmul bvudiv bvurem bvsdiv bvsrem bvand bvor bvxor bvnot bvneg bvshl bvlshr bvashr concat extract zext sext ite | not and or = bvult bvule bvslt bvsle
	W    int    // 0: Bool; otherwise bit-vector width
	Args []*Term
	C    uint64 // constant value (masked to W bits; Bool: 0/1)
	Name string // variable name
	Hi   int    // extract
	Lo   int
	id   int64
	h    uint64           // structural hash
	fv   map[string]*Term // cached free variables
}

func mix(h, v uint64) uint64 {
	h ^= v + 0x9e3779b97f4a7c15 + (h << 6) + (h >> 2)
	h *= 0xff51afd7ed558ccd
	h ^= h >> 33
	return h
}

func strHash(s string) uint64 {
	h := uint64(14695981039346656037)
	for i := 0; i < len(s); i++ {
		h ^= uint64(s[i])
		h *= 1099511628211
	}
	return h
}

// Hash returns the structural hash (equal terms have equal hashes).
func (t *Term) Hash() uint64 {
	if t.h != 0 {
		return t.h
	}
	h := mix(strHash(t.Op), uint64(t.W))
	switch t.Op {
	case "const":
		h = mix(h, t.C)
	case "var":
		h = mix(h, strHash(t.Name))
	case "extract":
		h = mix(h, uint64(t.Hi)<<16|uint64(t.Lo))
	}
	for _, a := range t.Args {
		h = mix(h, a.Hash())
	}
	if h == 0 {
		h = 1
	}
	t.h = h
	return h
}

var termID int64

func newTerm(op string, w int, args ...*Term) *Term {
	return &Term{Op: op, W: w, Args: args, id: atomic.AddInt64(&termID, 1)}
}

func mask(w int) uint64 {
	if w >= 64 {
		return ^uint64(0)
	}
	return (uint64(1) << uint(w)) - 1
}

var smallConsts = func() map[int]*[512]*Term {
	m := map[int]*[512]*Term{}
	for _, w := range []int{8, 16, 32, 64} {
		var a [512]*Term
		for v := range a {
			a[v] = &Term{Op: "const", W: w, C: uint64(v), id: atomic.AddInt64(&termID, 1)}
		}
		m[w] = &a
	}
	return m
}()

func BV(w int, v uint64) *Term {
	v &= mask(w)
	if v < 512 {
		if a := smallConsts[w]; a != nil {
			return a[v]
		}
	}
	t := newTerm("const", w)
	t.C = v
	return t
}

var tTrue = &Term{Op: "const", W: 0, C: 1, id: -1}
var tFalse = &Term{Op: "const", W: 0, C: 0, id: -2}

func Bool(b bool) *Term {
	if b {
		return tTrue
	}
	return tFalse
}

func Var(name string, w int) *Term {
	t := newTerm("var", w)
	t.Name = name
	return t
}

func (t *Term) IsConst() bool { return t.Op == "const" }
func (t *Term) IsTrue() bool  { return t.Op == "const" && t.W == 0 && t.C == 1 }
func (t *Term) IsFalse() bool { return t.Op == "const" && t.W == 0 && t.C == 0 }

// signed value of a constant
func (t *Term) S() int64 { return sext64(t.C, t.W) }

func sext64(v uint64, w int) int64 {
	if w >= 64 {
		return int64(v)
	}
	if v&(uint64(1)<<uint(w-1)) != 0 {
		return int64(v | ^mask(w))
	}
	return int64(v)
}

func sameTerm(a, b *Term) bool {
	if a == b {
		return true
	}
	if a.Hash() != b.Hash() {
		return false
	}
	if a.Op != b.Op || a.W != b.W || len(a.Args) != len(b.Args) {
		return false
	}
	switch a.Op {
	case "const":
		return a.C == b.C
	case "var":
		return a.Name == b.Name
	case "extract":
		if a.Hi != b.Hi || a.Lo != b.Lo {
			return false
		}
	}
	for i := range a.Args {
		if !sameTerm(a.Args[i], b.Args[i]) {
			return false
		}
	}
	return true
}

// ---- arithmetic constructors ----

func evalBin(op string, w int, a, b uint64) (uint64, bool) {
	m := mask(w)
	switch op {
	case "bvadd":
		return (a + b) & m, true
	case "bvsub":
		return (a - b) & m, true
	case "bvmul":
		return (a * b) & m, true
	case "bvudiv":
		if b == 0 {
			return m, true
		}
		return a / b, true
	case "bvurem":
		if b == 0 {
			return a, true
		}
		return a % b, true
	case "bvsdiv":
		sa, sb := sext64(a, w), sext64(b, w)
		if sb == 0 {
			if sa >= 0 {
				return m, true
			}
			return 1, true
		}
		if sb == -1 {
			return uint64(-sa) & m, true
		}
		return uint64(sa/sb) & m, true
	case "bvsrem":
		sa, sb := sext64(a, w), sext64(b, w)
		if sb == 0 {
			return a, true
		}
		if sb == -1 {
			return 0, true
		}
		return uint64(sa%sb) & m, true
	case "bvand":
		return a & b, true
	case "bvor":
		return a | b, true
	case "bvxor":
		return a ^ b, true
	case "bvshl":
		if b >= uint64(w) {
			return 0, true
		}
		return (a << b) & m, true
	case "bvlshr":
		if b >= uint64(w) {
			return 0, true
		}
		return a >> b, true
	case "bvashr":
		sa := sext64(a, w)
		if b >= uint64(w) {
			if sa < 0 {
				return m, true
			}
			return 0, true
		}
		return uint64(sa>>b) & m, true
	}
	return 0, false
}

func BinBV(op string, a, b *Term) *Term {
	if a.W != b.W || a.W == 0 {
		panic(fmt.Sprintf("BinBV %s width mismatch %d %d", op, a.W, b.W))
	}
	w := a.W
	if a.IsConst() && b.IsConst() {
		v, ok := evalBin(op, w, a.C, b.C)
		if !ok {
			panic("BinBV: unknown op " + op)
		}
		return BV(w, v)
	}
	switch op {
	case "bvadd":
		if a.IsConst() && a.C == 0 {
			return b
		}
		if b.IsConst() && b.C == 0 {
			return a
		}
	case "bvsub":
		if b.IsConst() && b.C == 0 {
			return a
		}
		if sameTerm(a, b) {
			return BV(w, 0)
		}
	case "bvmul":
		if a.IsConst() && a.C == 1 {
			return b
		}
		if b.IsConst() && b.C == 1 {
			return a
		}
		if (a.IsConst() && a.C == 0) || (b.IsConst() && b.C == 0) {
			return BV(w, 0)
		}
	case "bvand":
		if (a.IsConst() && a.C == 0) || (b.IsConst() && b.C == 0) {
			return BV(w, 0)
		}
		if a.IsConst() && a.C == mask(w) {
			return b
		}
		if b.IsConst() && b.C == mask(w) {
			return a
		}
		// masking with a constant that covers all possibly-set bits is the identity
		if b.IsConst() && nzMask(a)&^b.C == 0 {
			return a
		}
		if a.IsConst() && nzMask(b)&^a.C == 0 {
			return b
		}
		if b.IsConst() && nzMask(a)&b.C == 0 {
			return BV(w, 0)
		}
	case "bvor", "bvxor":
		if a.IsConst() && a.C == 0 {
			return b
		}
		if b.IsConst() && b.C == 0 {
			return a
		}
	case "bvshl", "bvlshr", "bvashr":
		if b.IsConst() && b.C == 0 {
			return a
		}
		if a.IsConst() && a.C == 0 {
			return a
		}
	case "bvudiv":
		if b.IsConst() && b.C == 1 {
			return a
		}
	}
	return newTerm(op, w, a, b)
}

// nzMask over-approximates the set of bits of t that can be non-zero.
func nzMask(t *Term) uint64 {
	switch t.Op {
	case "const":
		return t.C
	case "zext":
		return nzMask(t.Args[0])
	case "bvand":
		return nzMask(t.Args[0]) & nzMask(t.Args[1])
	case "bvor", "bvxor":
		return nzMask(t.Args[0]) | nzMask(t.Args[1])
	case "bvshl":
		if t.Args[1].IsConst() && t.Args[1].C < 64 {
			return (nzMask(t.Args[0]) << t.Args[1].C) & mask(t.W)
		}
	case "bvlshr":
		if t.Args[1].IsConst() && t.Args[1].C < 64 {
			return nzMask(t.Args[0]) >> t.Args[1].C
		}
	case "ite":
		return nzMask(t.Args[1]) | nzMask(t.Args[2])
	case "concat":
		lo := t.Args[1]
		return (nzMask(t.Args[0]) << uint(lo.W)) | nzMask(lo)
	case "extract":
		return (nzMask(t.Args[0]) >> uint(t.Lo)) & mask(t.W)
	case "bvurem":
		if t.Args[1].IsConst() && t.Args[1].C > 0 {
			return mask(bits.Len64(t.Args[1].C - 1))
		}
	}
	return mask(t.W)
}

func Not(a *Term) *Term {
	if a.W != 0 {
		panic("Not on non-bool")
	}
	if a.IsConst() {
		return Bool(a.C == 0)
	}
	if a.Op == "not" {
		return a.Args[0]
	}
	return newTerm("not", 0, a)
}

func And(a, b *Term) *Term {
	if a.IsFalse() || b.IsFalse() {
		return tFalse
	}
	if a.IsTrue() {
		return b
	}
	if b.IsTrue() {
		return a
	}
	if sameTerm(a, b) {
		return a
	}
	return newTerm("and", 0, a, b)
}

func Or(a, b *Term) *Term {
	if a.IsTrue() || b.IsTrue() {
		return tTrue
	}
	if a.IsFalse() {
		return b
	}
	if b.IsFalse() {
		return a
	}
	if sameTerm(a, b) {
		return a
	}
	return newTerm("or", 0, a, b)
}

func AndAll(ts []*Term) *Term {
	r := tTrue
	for _, t := range ts {
		r = And(r, t)
	}
	return r
}

func Implies(a, b *Term) *Term { return Or(Not(a), b) }

func Eq(a, b *Term) *Term {
	if a.W != b.W {
		panic(fmt.Sprintf("Eq width mismatch %d %d", a.W, b.W))
	}
	if a.IsConst() && b.IsConst() {
		return Bool(a.C == b.C)
	}
	if sameTerm(a, b) {
		return tTrue
	}
	if a.W == 0 {
		if a.IsConst() {
			a, b = b, a
		}
		if b.IsTrue() {
			return a
		}
		if b.IsFalse() {
			return Not(a)
		}
	}
	// canonical argument order for the commutative equality
	if !a.IsConst() && !b.IsConst() && a.Hash() > b.Hash() {
		a, b = b, a
	}
	// eq(ite(c,k1,k2), k) with constants: push inside
	if b.IsConst() && a.Op == "ite" && (a.Args[1].IsConst() || a.Args[2].IsConst()) {
		return Or(And(a.Args[0], Eq(a.Args[1], b)), And(Not(a.Args[0]), Eq(a.Args[2], b)))
	}
	if a.IsConst() && b.Op == "ite" && (b.Args[1].IsConst() || b.Args[2].IsConst()) {
		return Eq(b, a)
	}
	// a constant outside the possible range
	if b.IsConst() && a.W > 0 && b.C&^nzMask(a) != 0 {
		return tFalse
	}
	if a.IsConst() && a.W > 0 && a.C&^nzMask(b) != 0 {
		return tFalse
	}
	return newTerm("=", 0, a, b)
}

func Cmp(op string, a, b *Term) *Term {
	if a.W != b.W || a.W == 0 {
		panic("Cmp width mismatch " + op)
	}
	if a.IsConst() && b.IsConst() {
		switch op {
		case "bvult":
			return Bool(a.C < b.C)
		case "bvule":
			return Bool(a.C <= b.C)
		case "bvslt":
			return Bool(a.S() < b.S())
		case "bvsle":
			return Bool(a.S() <= b.S())
		}
	}
	switch op {
	case "bvult":
		if b.IsConst() && b.C == 0 {
			return tFalse
		}
		if b.IsConst() && nzMask(a) < b.C {
			return tTrue
		}
		if sameTerm(a, b) {
			return tFalse
		}
	case "bvule":
		if a.IsConst() && a.C == 0 {
			return tTrue
		}
		if b.IsConst() && nzMask(a) <= b.C {
			return tTrue
		}
		if sameTerm(a, b) {
			return tTrue
		}
	case "bvslt":
		if sameTerm(a, b) {
			return tFalse
		}
		// both provably non-negative: same as unsigned
		if nonNeg(a) && nonNeg(b) {
			return Cmp("bvult", a, b)
		}
	case "bvsle":
		if sameTerm(a, b) {
			return tTrue
		}
		if nonNeg(a) && nonNeg(b) {
			return Cmp("bvule", a, b)
		}
	}
	return newTerm(op, 0, a, b)
}

func nonNeg(t *Term) bool { return nzMask(t)&(uint64(1)<<uint(t.W-1)) == 0 }

func Ite(c, a, b *Term) *Term {
	if a.W != b.W {
		panic("Ite width mismatch")
	}
	if c.IsTrue() {
		return a
	}
	if c.IsFalse() {
		return b
	}
	if sameTerm(a, b) {
		return a
	}
	if a.W == 0 {
		return Or(And(c, a), And(Not(c), b))
	}
	return newTerm("ite", a.W, c, a, b)
}

func BVNot(a *Term) *Term {
	if a.IsConst() {
		return BV(a.W, ^a.C)
	}
	return newTerm("bvnot", a.W, a)
}

func BVNeg(a *Term) *Term {
	if a.IsConst() {
		return BV(a.W, -a.C)
	}
	return newTerm("bvneg", a.W, a)
}

func ZExt(a *Term, w int) *Term {
	if w == a.W {
		return a
	}
	if w < a.W {
		return Extract(a, w-1, 0)
	}
	if a.IsConst() {
		return BV(w, a.C)
	}
	if a.Op == "zext" {
		return ZExt(a.Args[0], w)
	}
	return newTerm("zext", w, a)
}

func SExt(a *Term, w int) *Term {
	if w == a.W {
		return a
	}
	if w < a.W {
		return Extract(a, w-1, 0)
	}
	if a.IsConst() {
		return BV(w, uint64(a.S()))
	}
	if nonNeg(a) {
		return ZExt(a, w)
	}
	return newTerm("sext", w, a)
}

func Extract(a *Term, hi, lo int) *Term {
	w := hi - lo + 1
	if lo == 0 && w == a.W {
		return a
	}
	if a.IsConst() {
		return BV(w, a.C>>uint(lo))
	}
	if (a.Op == "zext" || a.Op == "sext") && hi < a.Args[0].W {
		return Extract(a.Args[0], hi, lo)
	}
	if a.Op == "zext" && lo >= a.Args[0].W {
		return BV(w, 0)
	}
	if a.Op == "zext" && lo == 0 && hi >= a.Args[0].W {
		return ZExt(a.Args[0], w)
	}
	if a.Op == "concat" {
		lw := a.Args[1].W
		if hi < lw {
			return Extract(a.Args[1], hi, lo)
		}
		if lo >= lw {
			return Extract(a.Args[0], hi-lw, lo-lw)
		}
	}
	if a.Op == "extract" {
		return Extract(a.Args[0], hi+a.Lo, lo+a.Lo)
	}
	t := newTerm("extract", w, a)
	t.Hi, t.Lo = hi, lo
	return t
}

func Concat(hi, lo *Term) *Term {
	if hi.IsConst() && lo.IsConst() {
		return BV(hi.W+lo.W, hi.C<<uint(lo.W)|lo.C)
	}
	if hi.IsConst() && hi.C == 0 {
		return ZExt(lo, hi.W+lo.W)
	}
	return newTerm("concat", hi.W+lo.W, hi, lo)
}

// ---- free variables, evaluation ----

func (t *Term) FreeVars() map[string]*Term {
	if t.fv != nil {
		return t.fv
	}
	fv := map[string]*Term{}
	switch t.Op {
	case "const":
	case "var":
		fv[t.Name] = t
	default:
		for _, a := range t.Args {
			for k, v := range a.FreeVars() {
				fv[k] = v
			}
		}
	}
	t.fv = fv
	return fv
}

func (t *Term) HasVarPrefix(prefixes ...string) bool {
	for n := range t.FreeVars() {
		for _, p := range prefixes {
			if strings.HasPrefix(n, p) {
				return true
			}
		}
	}
	return false
}

type Model map[string]uint64

// Eval computes the value of t under a model (missing variables are 0).
func (t *Term) Eval(m Model) uint64 {
	memo := map[*Term]uint64{}
	return t.eval(m, memo)
}

func (t *Term) eval(m Model, memo map[*Term]uint64) uint64 {
	if t.Op == "const" {
		return t.C
	}
	if v, ok := memo[t]; ok {
		return v
	}
	var r uint64
	a := func(i int) uint64 { return t.Args[i].eval(m, memo) }
	b2u := func(b bool) uint64 {
		if b {
			return 1
		}
		return 0
	}
	switch t.Op {
	case "var":
		r = m[t.Name] & mask64(t.W)
	case "not":
		r = 1 - a(0)
	case "and":
		r = a(0) & a(1)
	case "or":
		r = a(0) | a(1)
	case "=":
		r = b2u(a(0) == a(1))
	case "bvult":
		r = b2u(a(0) < a(1))
	case "bvule":
		r = b2u(a(0) <= a(1))
	case "bvslt":
		r = b2u(sext64(a(0), t.Args[0].W) < sext64(a(1), t.Args[0].W))
	case "bvsle":
		r = b2u(sext64(a(0), t.Args[0].W) <= sext64(a(1), t.Args[0].W))
	case "ite":
		if a(0) == 1 {
			r = a(1)
		} else {
			r = a(2)
		}
	case "bvnot":
		r = ^a(0) & mask(t.W)
	case "bvneg":
		r = (-a(0)) & mask(t.W)
	case "zext":
		r = a(0)
	case "sext":
		r = uint64(sext64(a(0), t.Args[0].W)) & mask(t.W)
	case "extract":
		r = (a(0) >> uint(t.Lo)) & mask(t.W)
	case "concat":
		r = a(0)<<uint(t.Args[1].W) | a(1)
	default:
		v, ok := evalBin(t.Op, t.W, a(0), a(1))
		if !ok {
			panic("eval: unknown op " + t.Op)
		}
		r = v
	}
	memo[t] = r
	return r
}

func mask64(w int) uint64 {
	if w == 0 {
		return 1
	}
	return mask(w)
}

func (t *Term) String() string {
	switch t.Op {
	case "const":
		if t.W == 0 {
			if t.C == 1 {
				return "true"
			}
			return "false"
		}
		return fmt.Sprintf("%d:%d", t.C, t.W)
	case "var":
		return t.Name
	case "extract":
		return fmt.Sprintf("(extract[%d:%d] %s)", t.Hi, t.Lo, t.Args[0])
	}
	var sb strings.Builder
	sb.WriteString("(" + t.Op)
	for _, a := range t.Args {
		s := a.String()
		if len(s) > 200 {
			s = s[:200] + "…"
		}
		sb.WriteString(" " + s)
	}
	sb.WriteString(")")
	return sb.String()
}

func sortedVarNames(fv map[string]*Term) []string {
	names := make([]string, 0, len(fv))
	for n := range fv {
		names = append(names, n)
	}
	sort.Strings(names)
	return names
}

// Subst replaces variables by terms (used to rewrite a goal with variable
// equalities of the path condition); rebuilt through the constructors so that
// folding applies.
func Subst(t *Term, alias map[string]*Term, memo map[*Term]*Term) *Term {
	if len(alias) == 0 {
		return t
	}
	if r, ok := memo[t]; ok {
		return r
	}
	var r *Term
	switch t.Op {
	case "const":
		r = t
	case "var":
		if a, ok := alias[t.Name]; ok {
			r = a
		} else {
			r = t
		}
	default:
		hit := false
		for n := range t.FreeVars() {
			if _, ok := alias[n]; ok {
				hit = true
				break
			}
		}
		if !hit {
			r = t
			break
		}
		args := make([]*Term, len(t.Args))
		for i, a := range t.Args {
			args[i] = Subst(a, alias, memo)
		}
		switch t.Op {
		case "not":
			r = Not(args[0])
		case "and":
			r = And(args[0], args[1])
		case "or":
			r = Or(args[0], args[1])
		case "=":
			r = Eq(args[0], args[1])
		case "bvult", "bvule", "bvslt", "bvsle":
			r = Cmp(t.Op, args[0], args[1])
		case "ite":
			r = Ite(args[0], args[1], args[2])
		case "bvnot":
			r = BVNot(args[0])
		case "bvneg":
			r = BVNeg(args[0])
		case "zext":
			r = ZExt(args[0], t.W)
		case "sext":
			r = SExt(args[0], t.W)
		case "extract":
			r = Extract(args[0], t.Hi, t.Lo)
		case "concat":
			r = Concat(args[0], args[1])
		default:
			r = BinBV(t.Op, args[0], args[1])
		}
	}
	memo[t] = r
	return r
}
