package main

// `gosym selftest`: validation of the translator and of the hand-written models
// (DESIGN §4.5). Not the deciding step of any property.

import (
	"fmt"
	"os"
	"os/exec"
	"path/filepath"
	"sort"
	"strings"
	"time"
)

func cmdSelftest(args []string) int {
	start := time.Now()
	bad := 0
	fail := func(format string, a ...interface{}) {
		bad++
		fmt.Printf("SELFTEST-FAIL: "+format+"\n", a...)
	}
	// 1. solvers present and sane
	for _, k := range []SolverKind{kindZ3BV, kindZ3NewBV, kindCvc5BV, kindZ3NewI, kindCvc5I} {
		if _, err := exec.LookPath(k.Argv[0]); err != nil {
			fail("solver %s not found", k.Argv[0])
			continue
		}
		s := NewSolver(k, nil)
		x := Var("x", 32)
		s.Push()
		s.Assert(Eq(BinBV("bvadd", x, BV(32, 1)), BV(32, 0)))
		r1 := s.Check("selftest", 10*time.Second)
		s.Pop()
		s.Push()
		s.Assert(Cmp("bvult", x, BV(32, 5)))
		s.Assert(Cmp("bvult", BV(32, 7), x))
		r2 := s.Check("selftest", 10*time.Second)
		s.Pop()
		s.Close()
		if r1 != "sat" || r2 != "unsat" {
			fail("solver %s: sanity queries gave %s/%s (want sat/unsat)", k.Name, r1, r2)
		}
	}
	// 2. the power-of-two peephole of the INT printer, proved in BV
	{
		s := NewSolver(kindZ3BV, nil)
		x := Var("x", 32)
		lhs := Eq(BinBV("bvand", x, BinBV("bvsub", x, BV(32, 1))), BV(32, 0))
		rhs := Eq(x, BV(32, 0))
		for j := 0; j < 32; j++ {
			rhs = Or(rhs, Eq(x, BV(32, uint64(1)<<uint(j))))
		}
		s.Assert(Not(Eq(lhs, rhs)))
		if r := s.Check("selftest", 30*time.Second); r != "unsat" {
			fail("pow2 peephole not proved: %s", r)
		}
		s.Close()
	}
	// 3. string models against the native functions, exhaustively on 1- and 2-byte ASCII strings
	{
		m := &Machine{cfg: defaultCfg("selftest"), res: &PathResult{Notes: map[string]string{}}}
		b0, b1 := Var("in_b0", 8), Var("in_b1", 8)
		m.assume(Cmp("bvult", b0, BV(8, 0x80)))
		m.assume(Cmp("bvult", b1, BV(8, 0x80)))
		sym := strFromBytes([]*Term{b0, b1}, false)
		title := m.titleSym(sym).(*StrV)
		upper := m.caseSym(sym, true).(*StrV)
		lower := m.caseSym(sym, false).(*StrV)
		cany := m.containsAnySym(sym, mkStr("a0!é"))
		n := 0
		for x := 0; x < 128; x++ {
			for y := 0; y < 128; y++ {
				mod := Model{"in_b0": uint64(x), "in_b1": uint64(y)}
				in := string([]byte{byte(x), byte(y)})
				ev := func(s *StrV) string {
					bs := make([]byte, s.Len())
					for i := range bs {
						bs[i] = byte(s.Byte(i).Eval(mod))
					}
					return string(bs)
				}
				if ev(title) != strings.Title(in) {
					fail("strings.Title model differs on %q: %q vs %q", in, ev(title), strings.Title(in))
				}
				if ev(upper) != strings.ToUpper(in) || ev(lower) != strings.ToLower(in) {
					fail("ToUpper/ToLower model differs on %q", in)
				}
				if (cany.Eval(mod) == 1) != strings.ContainsAny(in, "a0!é") {
					fail("ContainsAny model differs on %q", in)
				}
				n++
				if bad > 5 {
					break
				}
			}
		}
		// one-byte strings
		one := strFromBytes([]*Term{b0}, false)
		t1 := m.titleSym(one).(*StrV)
		for x := 0; x < 128; x++ {
			mod := Model{"in_b0": uint64(x)}
			if string([]byte{byte(t1.Byte(0).Eval(mod))}) != strings.Title(string([]byte{byte(x)})) {
				fail("strings.Title model differs on the one-byte string %q", string([]byte{byte(x)}))
			}
			n++
		}
		fmt.Printf("selftest: string models agree with the native functions on %d ASCII inputs\n", n)
	}
	// 4. engine vs native on the library's own vectors (harness HSelf)
	{
		p, err := loadFor("spg", []string{"verif"})
		if err != nil {
			fail("cannot load /repo: %v", firstLine(err.Error()))
		} else {
			cfg := defaultCfg("HSelf")
			cfg.Workers = 1
			hr, err := Explore(p, "HSelf", cfg, newSolverStats())
			if err != nil {
				fail("engine error in HSelf: %v", firstLine(err.Error()))
			} else if hr.ByStatus["ok"] != 1 || hr.Paths != 1 {
				fail("HSelf did not run to completion as a single concrete path: %v %v %v", hr.ByStatus, hr.Unmodelled, hr.Inconcl)
			} else {
				eng := map[string]string{}
				for k, vs := range hr.Notes {
					if strings.HasPrefix(k, "self:") {
						for v := range vs {
							eng[strings.TrimPrefix(k, "self:")] = strings.TrimSuffix(strings.TrimPrefix(v, "(string)\""), "\"")
						}
					}
				}
				rp, err := NewReplayer("spg")
				if err != nil {
					fail("native build failed: %v", firstLine(err.Error()))
				} else {
					path := filepath.Join(os.TempDir(), fmt.Sprintf("gosym-self-%d.json", os.Getpid()))
					writeJSON(path, &ReplayFile{Harness: "HSelf", Values: map[string]uint64{}, Bytes: map[string]string{}, Choices: map[string]int{}, Params: map[string]int{"selftest": 1}})
					out, verdict := rp.RunRaw(path)
					os.Remove(path)
					rp.Close()
					nat := map[string]string{}
					for _, l := range strings.Split(out, "\n") {
						if strings.HasPrefix(l, "REPLAY-SELF: ") {
							kv := strings.SplitN(strings.TrimPrefix(l, "REPLAY-SELF: "), "=", 2)
							if len(kv) == 2 {
								nat[kv[0]] = kv[1]
							}
						}
					}
					if verdict != "passed" || len(nat) == 0 {
						fail("native HSelf run: %s (%d records)", verdict, len(nat))
					}
					var keys []string
					for k := range eng {
						keys = append(keys, k)
					}
					sort.Strings(keys)
					same := 0
					for _, k := range keys {
						if nat[k] != eng[k] {
							fail("engine and native disagree on %s: engine %q native %q", k, eng[k], nat[k])
						} else {
							same++
						}
					}
					if len(nat) != len(eng) {
						fail("engine recorded %d values, native %d", len(eng), len(nat))
					}
					fmt.Printf("selftest: engine and native build agree on %d library results (tokenizer vectors, counts, entropies, word lists)\n", same)
				}
			}
		}
	}
	if bad > 0 {
		fmt.Printf("selftest: %d failures (%.1fs)\n", bad, time.Since(start).Seconds())
		return 1
	}
	fmt.Printf("selftest: ok (%.1fs)\n", time.Since(start).Seconds())
	return 0
}
