package main

// Native replay (DESIGN §4.4): the same harness text is compiled against the
// real package with ordinary Go bodies for the intrinsics; a counterexample is
// reported only if it reproduces there.

import (
	"encoding/json"
	"fmt"
	"os"
	"os/exec"
	"path/filepath"
	"regexp"
	"sort"
	"strings"
	"time"
)

type Replayer struct {
	sub      string
	tmp      string
	bin      string
	cwd      string
	BuildS   float64
	Runs     int
	opgenBin string
}

var harnessFuncRe = regexp.MustCompile(`(?m)^func (H[0-9A-Za-z_]+)\(\)`)

func goEnv() []string {
	return append(os.Environ(), "GOFLAGS=-mod=mod", "GOPROXY=off", "GOSUMDB=off", "GOTOOLCHAIN=local")
}

func NewReplayer(sub string) (*Replayer, error) { return newReplayer(sub, false) }

// NewRaceReplayer builds the native test binary with the race detector.
func NewRaceReplayer(sub string) (*Replayer, error) { return newReplayer(sub, true) }

func newReplayer(sub string, race bool) (*Replayer, error) {
	start := time.Now()
	target := repoDir
	if sub == "opgen" {
		target = filepath.Join(repoDir, "cmd", "opgen")
	}
	tmp, err := os.MkdirTemp("", "gosym-replay-")
	if err != nil {
		return nil, err
	}
	r := &Replayer{sub: sub, tmp: tmp, cwd: target}
	ov, paths, err := harnessOverlay(sub, target, true)
	if err != nil {
		return nil, err
	}
	var names []string
	pkgName := "spg"
	if sub == "opgen" {
		pkgName = "main"
	}
	for _, src := range ov {
		for _, mm := range harnessFuncRe.FindAllStringSubmatch(string(src), -1) {
			names = append(names, mm[1])
		}
	}
	sort.Strings(names)
	var sb strings.Builder
	fmt.Fprintf(&sb, "package %s\n\nvar verifHarnesses = map[string]func(){\n", pkgName)
	for _, n := range names {
		fmt.Fprintf(&sb, "\t%q: %s,\n", n, n)
	}
	sb.WriteString("}\n")
	reg := filepath.Join(tmp, "registry.go")
	if err := os.WriteFile(reg, []byte(sb.String()), 0o644); err != nil {
		return nil, err
	}
	paths[filepath.Join(target, "zz_verif_registry_test.go")] = reg
	for n, b := range generatedHarnessData(sub) {
		gp := filepath.Join(tmp, n)
		if err := os.WriteFile(gp, b, 0o644); err != nil {
			return nil, err
		}
		paths[filepath.Join(target, "zz_verif_"+strings.TrimSuffix(n, ".go")+"_test.go")] = gp
	}
	ovj, _ := json.Marshal(map[string]interface{}{"Replace": paths})
	ovPath := filepath.Join(tmp, "overlay.json")
	os.WriteFile(ovPath, ovj, 0o644)
	r.bin = filepath.Join(tmp, "replay.test")
	args := []string{"test", "-c", "-tags", "verif", "-vet=off", "-overlay", ovPath, "-o", r.bin}
	if race {
		args = append(args, "-race")
	}
	args = append(args, ".")
	cmd := exec.Command("go", args...)
	cmd.Dir = target
	cmd.Env = goEnv()
	out, err := cmd.CombinedOutput()
	if err != nil {
		os.RemoveAll(tmp)
		return nil, fmt.Errorf("native replay build failed: %v\n%s", err, out)
	}
	if sub == "opgen" {
		// the shipped program (no build tag) for vRunMain
		r.opgenBin = filepath.Join(tmp, "opgen-bin")
		bc := exec.Command("go", "build", "-o", r.opgenBin, "./cmd/opgen")
		bc.Dir = repoDir
		bc.Env = goEnv()
		if out, err := bc.CombinedOutput(); err != nil {
			os.RemoveAll(tmp)
			return nil, fmt.Errorf("opgen build failed: %v\n%s", err, out)
		}
	}
	r.BuildS = time.Since(start).Seconds()
	return r, nil
}

func (r *Replayer) Close() {
	if r.tmp != "" {
		os.RemoveAll(r.tmp)
	}
}

// Run executes one replay file. Verdicts: reproduced | passed | assume-failed | error.
func (r *Replayer) Run(path string) (string, string) {
	r.Runs++
	cmd := exec.Command(r.bin, "-test.run", "^TestVerifReplay$", "-test.count=1", "-test.timeout=120s")
	cmd.Dir = r.cwd
	cmd.Env = append(goEnv(), "GOSYM_REPLAY="+path, "GOSYM_OPGEN_BIN="+r.opgenBin)
	out, _ := cmd.CombinedOutput()
	text := string(out)
	verdict := "error"
	for _, l := range strings.Split(text, "\n") {
		if strings.HasPrefix(l, "REPLAY-RESULT: ") {
			v := strings.TrimPrefix(l, "REPLAY-RESULT: ")
			switch {
			case strings.HasPrefix(v, "assert-failed"), strings.HasPrefix(v, "panic"):
				verdict = "reproduced"
			case strings.HasPrefix(v, "passed"):
				verdict = "passed"
			case strings.HasPrefix(v, "assume-failed"):
				verdict = "assume-failed"
			}
		}
	}
	// keep the interesting lines only
	var keep []string
	for _, l := range strings.Split(text, "\n") {
		if strings.HasPrefix(l, "REPLAY-") {
			keep = append(keep, l)
		}
	}
	if verdict == "error" {
		if len(text) > 2000 {
			text = text[:2000]
		}
		return text, verdict
	}
	return strings.Join(keep, "\n"), verdict
}

// RunRace runs the concurrent stress test under the race detector.
// Verdicts: reproduced (race reported or a result failed validation) | passed | error.
func (r *Replayer) RunRace() (string, string) {
	cmd := exec.Command(r.bin, "-test.run", "^TestVerifRace$", "-test.count=1", "-test.timeout=600s")
	cmd.Dir = r.cwd
	cmd.Env = append(goEnv(), "GOSYM_RACE=1", "GORACE=halt_on_error=0")
	out, err := cmd.CombinedOutput()
	text := string(out)
	races := strings.Count(text, "WARNING: DATA RACE")
	var keep []string
	for _, l := range strings.Split(text, "\n") {
		if strings.HasPrefix(l, "RACE-RESULT") {
			keep = append(keep, l)
		}
	}
	summary := fmt.Sprintf("data races reported: %d; %s", races, strings.Join(keep, " / "))
	if races > 0 || strings.Contains(text, "RACE-RESULT: invalid") {
		// keep the first race report
		if i := strings.Index(text, "WARNING: DATA RACE"); i >= 0 {
			rep := text[i:]
			if len(rep) > 1500 {
				rep = rep[:1500]
			}
			summary += "\n" + rep
		}
		return summary, "reproduced"
	}
	if strings.Contains(text, "RACE-RESULT: clean") {
		return summary, "passed"
	}
	_ = err
	if len(text) > 1500 {
		text = text[:1500]
	}
	return text, "error"
}

// RunRaw runs a replay file and returns the whole output (selftest).
func (r *Replayer) RunRaw(path string) (string, string) {
	cmd := exec.Command(r.bin, "-test.run", "^TestVerifReplay$", "-test.count=1", "-test.timeout=120s")
	cmd.Dir = r.cwd
	cmd.Env = append(goEnv(), "GOSYM_REPLAY="+path, "GOSYM_OPGEN_BIN="+r.opgenBin)
	out, _ := cmd.CombinedOutput()
	text := string(out)
	verdict := "error"
	if strings.Contains(text, "REPLAY-RESULT: passed") {
		verdict = "passed"
	} else if strings.Contains(text, "REPLAY-RESULT: ") {
		verdict = "failed"
	}
	return text, verdict
}

func cmdReplay(args []string) int {
	if len(args) < 1 {
		fmt.Fprintln(os.Stderr, "usage: gosym replay <file>")
		return 2
	}
	b, err := os.ReadFile(args[0])
	if err != nil {
		fmt.Fprintln(os.Stderr, err)
		return 2
	}
	var rf ReplayFile
	if err := json.Unmarshal(b, &rf); err != nil {
		fmt.Fprintln(os.Stderr, err)
		return 2
	}
	sub := "spg"
	if strings.HasPrefix(rf.Harness, "HO") {
		sub = "opgen"
	}
	if rf.Expect == "race" {
		rp, err := NewRaceReplayer(sub)
		if err != nil {
			fmt.Fprintln(os.Stderr, err)
			return 2
		}
		defer rp.Close()
		out, verdict := rp.RunRace()
		fmt.Println(out)
		fmt.Println("verdict:", verdict)
		if verdict == "reproduced" {
			return 1
		}
		return 0
	}
	rp, err := NewReplayer(sub)
	if err != nil {
		fmt.Fprintln(os.Stderr, err)
		return 2
	}
	defer rp.Close()
	out, verdict := rp.Run(absPath(args[0]))
	fmt.Println(out)
	fmt.Println("verdict:", verdict)
	if verdict == "reproduced" {
		return 1
	}
	return 0
}
