package main

import (
	"fmt"
	"go/token"
	"go/types"
	"math"
	"unicode/utf8"

	"golang.org/x/tools/go/ssa"
)

func (m *Machine) unop(fr *frame, x *ssa.UnOp) Val {
	v := fr.get(m, x.X)
	switch x.Op {
	case token.MUL:
		return m.load(v)
	case token.NOT:
		return Not(v.(*Term))
	case token.SUB:
		switch a := v.(type) {
		case *Term:
			return BVNeg(a)
		case FloatV:
			return FloatV{-a.F, a.W}
		}
	case token.XOR:
		return BVNot(v.(*Term))
	case token.ARROW:
		ch := v.(*ChanObj)
		if ch == nil {
			m.unmodelled("receive from nil channel")
		}
		et := x.X.Type().Underlying().(*types.Chan).Elem()
		if len(ch.q) == 0 {
			if !ch.closed {
				m.unmodelled("receive would block (channel model holds only pre-filled queues)")
			}
			if x.CommaOk {
				return TupleV{zero(et, nil), tFalse}
			}
			return zero(et, nil)
		}
		e := m.chanPop(ch)
		if x.CommaOk {
			return TupleV{e, tTrue}
		}
		return e
	}
	m.unmodelled("unary %s on %T in %s", x.Op, v, fr.fn)
	return nil
}

func (m *Machine) binop(op token.Token, xt types.Type, a, b Val, yt types.Type) Val {
	switch x := a.(type) {
	case *Term:
		y, ok := b.(*Term)
		if !ok {
			m.unmodelled("binary %s on %T and %T", op, a, b)
		}
		if x.W == 0 {
			switch op {
			case token.EQL:
				return Eq(x, y)
			case token.NEQ:
				return Not(Eq(x, y))
			case token.AND, token.LAND:
				return And(x, y)
			case token.OR, token.LOR:
				return Or(x, y)
			}
			panic("bool binop " + op.String())
		}
		_, signed, _ := intWidth(xt)
		return m.intBinop(op, x, y, signed, yt)
	case FloatV:
		y := b.(FloatV)
		var r float64
		switch op {
		case token.ADD:
			r = x.F + y.F
		case token.SUB:
			r = x.F - y.F
		case token.MUL:
			r = x.F * y.F
		case token.QUO:
			r = x.F / y.F
		case token.EQL:
			return Bool(x.F == y.F)
		case token.NEQ:
			return Bool(x.F != y.F)
		case token.LSS:
			return Bool(x.F < y.F)
		case token.LEQ:
			return Bool(x.F <= y.F)
		case token.GTR:
			return Bool(x.F > y.F)
		case token.GEQ:
			return Bool(x.F >= y.F)
		default:
			panic("float binop " + op.String())
		}
		if x.W == 32 {
			r = f32(r)
		}
		return FloatV{r, x.W}
	case *StrV:
		y := b.(*StrV)
		switch op {
		case token.ADD:
			return strConcat(x, y)
		case token.EQL:
			return strEq(x, y)
		case token.NEQ:
			return Not(strEq(x, y))
		case token.LSS, token.LEQ, token.GTR, token.GEQ:
			return m.strCmp(op, x, y)
		}
	}
	switch op {
	case token.EQL:
		return valEq(a, b)
	case token.NEQ:
		return Not(valEq(a, b))
	}
	m.unmodelled("binary %s on %T", op, a)
	return nil
}

// strCmp builds lexicographic byte order as a term.
func (m *Machine) strCmp(op token.Token, x, y *StrV) *Term {
	if x.Conc() && y.Conc() {
		switch op {
		case token.LSS:
			return Bool(x.S < y.S)
		case token.LEQ:
			return Bool(x.S <= y.S)
		case token.GTR:
			return Bool(x.S > y.S)
		default:
			return Bool(x.S >= y.S)
		}
	}
	// lt(x,y): exists i: prefix equal and x[i]<y[i], or x is a proper prefix of y
	lt := func(a, b *StrV) *Term {
		n := a.Len()
		if b.Len() < n {
			n = b.Len()
		}
		res := Bool(a.Len() < b.Len()) // if all common bytes equal
		for i := n - 1; i >= 0; i-- {
			res = Or(Cmp("bvult", a.Byte(i), b.Byte(i)), And(Eq(a.Byte(i), b.Byte(i)), res))
		}
		return res
	}
	switch op {
	case token.LSS:
		return lt(x, y)
	case token.GTR:
		return lt(y, x)
	case token.LEQ:
		return Not(lt(y, x))
	default:
		return Not(lt(x, y))
	}
}

func (m *Machine) intBinop(op token.Token, x, y *Term, signed bool, yt types.Type) Val {
	switch op {
	case token.SHL, token.SHR:
		// the shift count has its own type
		_, ys, _ := intWidth(yt)
		if ys {
			neg := Cmp("bvslt", y, BV(y.W, 0))
			if m.branch(neg, "negative shift count") {
				m.rtPanic("negative shift amount")
			}
		}
		var cnt *Term
		if y.W > x.W {
			big := Cmp("bvule", BV(y.W, uint64(x.W)), y)
			cnt = Ite(big, BV(x.W, uint64(x.W)), Extract(y, x.W-1, 0))
		} else {
			cnt = ZExt(y, x.W)
		}
		if op == token.SHL {
			return BinBV("bvshl", x, cnt)
		}
		if signed {
			return BinBV("bvashr", x, cnt)
		}
		return BinBV("bvlshr", x, cnt)
	}
	if x.W != y.W {
		panic(fmt.Sprintf("intBinop %s widths %d %d", op, x.W, y.W))
	}
	switch op {
	case token.ADD:
		return BinBV("bvadd", x, y)
	case token.SUB:
		return BinBV("bvsub", x, y)
	case token.MUL:
		return BinBV("bvmul", x, y)
	case token.QUO, token.REM:
		if m.branch(Eq(y, BV(y.W, 0)), "division by zero") {
			m.rtPanic("integer divide by zero")
		}
		switch {
		case op == token.QUO && signed:
			return BinBV("bvsdiv", x, y)
		case op == token.QUO:
			return BinBV("bvudiv", x, y)
		case signed:
			return BinBV("bvsrem", x, y)
		default:
			return BinBV("bvurem", x, y)
		}
	case token.AND:
		return BinBV("bvand", x, y)
	case token.OR:
		return BinBV("bvor", x, y)
	case token.XOR:
		return BinBV("bvxor", x, y)
	case token.AND_NOT:
		return BinBV("bvand", x, BVNot(y))
	case token.EQL:
		return Eq(x, y)
	case token.NEQ:
		return Not(Eq(x, y))
	case token.LSS:
		if signed {
			return Cmp("bvslt", x, y)
		}
		return Cmp("bvult", x, y)
	case token.LEQ:
		if signed {
			return Cmp("bvsle", x, y)
		}
		return Cmp("bvule", x, y)
	case token.GTR:
		if signed {
			return Cmp("bvslt", y, x)
		}
		return Cmp("bvult", y, x)
	case token.GEQ:
		if signed {
			return Cmp("bvsle", y, x)
		}
		return Cmp("bvule", y, x)
	}
	panic("intBinop: " + op.String())
}

func (m *Machine) convert(v Val, from, to types.Type) Val {
	fu, tu := from.Underlying(), to.Underlying()
	// integer -> ...
	if fw, fsigned, ok := intWidth(from); ok {
		t := v.(*Term)
		if tw, _, ok := intWidth(to); ok {
			if tw <= fw {
				return Extract(t, tw-1, 0)
			}
			if fsigned {
				return SExt(t, tw)
			}
			return ZExt(t, tw)
		}
		if w, ok := isFloat(to); ok {
			c := m.concreteValue(t, "integer to float conversion")
			var f float64
			if fsigned {
				f = float64(sext64(c, fw))
			} else {
				f = float64(c)
			}
			if w == 32 {
				f = f32(f)
			}
			return FloatV{f, w}
		}
		if isString(to) {
			if !t.IsConst() && fw <= 32 {
				r := t
				if fw < 32 {
					if fsigned {
						r = SExt(t, 32)
					} else {
						r = ZExt(t, 32)
					}
				}
				return strFromBytes(m.encodeRuneSym(r), false)
			}
			c := m.concreteValue(t, "integer to string conversion")
			return mkStr(string(rune(sext64(c, fw))))
		}
		if b, ok := tu.(*types.Basic); ok && b.Kind() == types.UnsafePointer {
			m.unmodelled("integer to unsafe.Pointer")
		}
	}
	if _, ok := isFloat(from); ok {
		f := v.(FloatV)
		if w, ok := isFloat(to); ok {
			if w == 32 {
				return FloatV{f32(f.F), 32}
			}
			return FloatV{f.F, 64}
		}
		if tw, tsigned, ok := intWidth(to); ok {
			if tsigned {
				return BV(tw, uint64(int64(f.F)))
			}
			return BV(tw, uint64(f.F))
		}
	}
	if isString(from) {
		s := v.(*StrV)
		if isString(to) {
			return s
		}
		if sl, ok := tu.(*types.Slice); ok {
			eb := sl.Elem().Underlying().(*types.Basic)
			o := m.newObj("string to slice conversion")
			switch eb.Kind() {
			case types.Uint8:
				bs := s.Bytes()
				a := &ArrObj{E: make([]*Cell, len(bs)), O: o}
				for i, b := range bs {
					a.E[i] = &Cell{V: b, O: o}
				}
				return SliceV{A: a, Len: len(bs), Cap: len(bs)}
			case types.Int32:
				if !s.Conc() {
					// decode rune by rune as a range loop would (an invalid byte
					// gives U+FFFD, width 1)
					a := &ArrObj{O: o}
					for pos := 0; pos < s.Len(); {
						r, size := m.decodeRuneSym(s, pos)
						a.E = append(a.E, &Cell{V: r, O: o})
						pos += size
					}
					return SliceV{A: a, Len: len(a.E), Cap: len(a.E)}
				}
				rs := []rune(s.S)
				a := &ArrObj{E: make([]*Cell, len(rs)), O: o}
				for i, r := range rs {
					a.E[i] = &Cell{V: BV(32, uint64(uint32(r))), O: o}
				}
				return SliceV{A: a, Len: len(rs), Cap: len(rs)}
			}
		}
	}
	if sl, ok := fu.(*types.Slice); ok && isString(to) {
		s := v.(SliceV)
		eb := sl.Elem().Underlying().(*types.Basic)
		switch eb.Kind() {
		case types.Uint8:
			bs := make([]*Term, s.Len)
			for i := range bs {
				bs[i] = s.A.E[s.Off+i].V.(*Term)
			}
			return strFromBytes(bs, false)
		case types.Int32:
			allConc := true
			for i := 0; i < s.Len; i++ {
				if !s.A.E[s.Off+i].V.(*Term).IsConst() {
					allConc = false
				}
			}
			if !allConc {
				var bs []*Term
				for i := 0; i < s.Len; i++ {
					bs = append(bs, m.encodeRuneSym(s.A.E[s.Off+i].V.(*Term))...)
				}
				return strFromBytes(bs, false)
			}
			buf := []byte{}
			for i := 0; i < s.Len; i++ {
				t := s.A.E[s.Off+i].V.(*Term)
				c := m.concreteValue(t, "rune slice to string")
				buf = utf8.AppendRune(buf, rune(int32(c)))
			}
			return mkStr(string(buf))
		}
	}
	// pointer <-> unsafe.Pointer and identical underlying types
	if types.Identical(fu, tu) {
		return v
	}
	if _, ok := fu.(*types.Pointer); ok {
		return v
	}
	if b, ok := fu.(*types.Basic); ok && b.Kind() == types.UnsafePointer {
		return v
	}
	m.unmodelled("conversion %s -> %s", from, to)
	return nil
}

// encodeRuneSym is utf8.AppendRune on a symbolic rune: the path forks on the
// width class, the bytes are terms over the rune.
func (m *Machine) encodeRuneSym(r *Term) []*Term {
	if r.IsConst() {
		var out []*Term
		for _, b := range utf8.AppendRune(nil, rune(int32(r.C))) {
			out = append(out, BV(8, uint64(b)))
		}
		return out
	}
	lo6 := func(sh int) *Term {
		x := BinBV("bvand", BinBV("bvlshr", r, BV(32, uint64(sh))), BV(32, 0x3F))
		return Extract(BinBV("bvor", x, BV(32, 0x80)), 7, 0)
	}
	lead := func(sh int, tag uint64) *Term {
		return Extract(BinBV("bvor", BinBV("bvlshr", r, BV(32, uint64(sh))), BV(32, tag)), 7, 0)
	}
	repl := []*Term{BV(8, 0xEF), BV(8, 0xBF), BV(8, 0xBD)}
	if m.branch(Cmp("bvult", r, BV(32, 0x80)), "rune to string: one byte") {
		return []*Term{Extract(r, 7, 0)}
	}
	if m.branch(Cmp("bvult", r, BV(32, 0x800)), "rune to string: two bytes") {
		return []*Term{lead(6, 0xC0), lo6(0)}
	}
	if m.branch(Cmp("bvult", BV(32, 0x10FFFF), r), "rune to string: out of range") {
		return repl
	}
	if m.branch(And(Cmp("bvule", BV(32, 0xD800), r), Cmp("bvule", r, BV(32, 0xDFFF))), "rune to string: surrogate") {
		return repl
	}
	if m.branch(Cmp("bvult", r, BV(32, 0x10000)), "rune to string: three bytes") {
		return []*Term{lead(12, 0xE0), lo6(6), lo6(0)}
	}
	return []*Term{lead(18, 0xF0), lo6(12), lo6(6), lo6(0)}
}

// concreteValue forces t to a single concrete value on this path by asking the
// solver for the feasible values (bounded).
func (m *Machine) concreteValue(t *Term, what string) uint64 {
	if t.IsConst() {
		return t.C
	}
	if sv := m.smallValues(t, m.cfg.MaxConcretise); sv != nil {
		return m.splitSmall(t, sv, what).C
	}
	vals := m.enumerate(t, m.cfg.MaxConcretise)
	if vals == nil {
		m.concretiseCut++
		panic(&abortPath{"concretise", what + ": too many feasible values"})
	}
	conds := make([]*Term, len(vals))
	for i, v := range vals {
		conds[i] = Eq(t, BV(t.W, v))
	}
	if m.pos < len(m.prefix) {
		k := m.prefix[m.pos]
		m.pos++
		m.assume(conds[k])
		return vals[k]
	}
	base := append([]int(nil), m.prefix...)
	for k := 1; k < len(vals); k++ {
		m.spawn = append(m.spawn, append(append([]int(nil), base...), k))
	}
	m.prefix = append(m.prefix, 0)
	m.pos++
	m.assume(conds[0])
	return vals[0]
}

// enumerate lists the feasible values of t under the path condition in
// increasing order of discovery, or nil if there are more than max. The order
// must be reproducible across re-executions, so values are sorted.
func (m *Machine) enumerate(t *Term, max int) []uint64 {
	if m.pos < len(m.prefix) {
		// during prefix replay the list must be recomputed identically; cache by position
		if vs, ok := m.shared.enumCache.Load(enumKey(m.prefix[:m.pos], m.pos)); ok {
			return vs.([]uint64)
		}
	}
	var vals []uint64
	m.sol.Push()
	fv := t.FreeVars()
	for len(vals) <= max {
		r := m.sol.Check("enumerate", m.cfg.FeasTimeout)
		if r != "sat" {
			break
		}
		model, ok := m.sol.Values(fv)
		if !ok {
			break
		}
		v := t.Eval(model)
		vals = append(vals, v)
		m.sol.Assert(Not(Eq(t, BV(t.W, v))))
	}
	m.sol.Pop()
	if len(vals) > max || len(vals) == 0 {
		return nil
	}
	sortU64(vals)
	m.shared.enumCache.Store(enumKey(m.prefix[:m.pos], m.pos), vals)
	return vals
}

func enumKey(prefix []int, pos int) string {
	return fmt.Sprint(prefix, "@", pos)
}

func sortU64(v []uint64) {
	for i := 1; i < len(v); i++ {
		for j := i; j > 0 && v[j] < v[j-1]; j-- {
			v[j], v[j-1] = v[j-1], v[j]
		}
	}
}

var _ = math.MaxInt
