package main

// Value and memory model of the executor (DESIGN §3.3).

import (
	"fmt"
	"go/types"
	"math/big"
	"strings"

	"golang.org/x/tools/go/ssa"
)

type Val interface{}

// Obj identifies an allocation: who made it and when (epoch 0 = package
// initialisation, 1 = harness pre-state, 2 = inside the call under test).
type Obj struct {
	id    int
	epoch int
	site  string
}

type Cell struct {
	V Val
	O *Obj
}

// Ptr is a Go pointer to a cell (nil pointer: C == nil).
type Ptr struct{ C *Cell }

// SymPtr points at element (Off+Idx) of a backing array, Idx symbolic, then
// follows Path (field indices) inside the element.
type SymPtr struct {
	A    *ArrObj
	Off  int
	N    int // Idx ranges over [0,N)
	Idx  *Term
	Path []int
}

type StructV struct{ F []*Cell }
type ArrV struct{ E []*Cell }

type ArrObj struct {
	E []*Cell
	O *Obj
}

type SliceV struct {
	A             *ArrObj
	Off, Len, Cap int
}

type FloatV struct {
	F float64
	W int
}

type StrV struct {
	S string    // concrete content when B == nil
	B []*Term   // per-byte terms (width 8) when any byte is symbolic
	T bool      // tainted: chosen by a random draw through a fork
	P *pickInfo // when the string is options[idx] for a symbolic idx
}

// pickInfo remembers that a symbolic string is a selection among concrete
// strings, so that pure string functions can be mapped over the options.
type pickInfo struct {
	idx  *Term
	at   []int // option i corresponds to idx == at[i]
	opts []*StrV
}

type Iface struct {
	T types.Type // dynamic type; nil for the nil interface
	V Val
}

type Closure struct {
	Fn  *ssa.Function
	Env []Val
}

type TupleV []Val

type mapEnt struct {
	K, V    Val
	ks      string // canonical key when concrete
	conc    bool
	deleted bool
}

type MapObj struct {
	O    *Obj
	ents []*mapEnt
	idx  map[string]*mapEnt // concrete keys
	nsym int                // live entries with symbolic keys
	n    int                // live entries
	kt   types.Type
	vt   types.Type
}

type ChanObj struct {
	q      []Val
	cap    int
	closed bool
	O      *Obj
}

type mapIter struct {
	m    *MapObj
	ents []*mapEnt
	pos  int
	perm bool // order is a choice point
}

type strIter struct {
	s   *StrV
	pos int
}

// native big numbers live in a side table keyed by the cell of the Go struct
type bigTable struct {
	ints   map[*Cell]*big.Int
	floats map[*Cell]*big.Float
}

// ---- strings ----

func mkStr(s string) *StrV { return &StrV{S: s} }

func (s *StrV) Len() int {
	if s.B != nil {
		return len(s.B)
	}
	return len(s.S)
}

func (s *StrV) Conc() bool { return s.B == nil }

func (s *StrV) Byte(i int) *Term {
	if s.B != nil {
		return s.B[i]
	}
	return BV(8, uint64(s.S[i]))
}

func (s *StrV) Bytes() []*Term {
	if s.B != nil {
		return s.B
	}
	b := make([]*Term, len(s.S))
	for i := range b {
		b[i] = BV(8, uint64(s.S[i]))
	}
	return b
}

func strFromBytes(b []*Term, taint bool) *StrV {
	allc := true
	for _, t := range b {
		if !t.IsConst() {
			allc = false
			break
		}
	}
	if allc {
		bs := make([]byte, len(b))
		for i, t := range b {
			bs[i] = byte(t.C)
		}
		return &StrV{S: string(bs), T: taint}
	}
	if len(b) == 0 {
		return &StrV{T: taint}
	}
	return &StrV{B: append([]*Term(nil), b...), T: taint}
}

func samePick(a, b *pickInfo) bool {
	if a == nil || b == nil || !sameTerm(a.idx, b.idx) || len(a.at) != len(b.at) {
		return false
	}
	for i := range a.at {
		if a.at[i] != b.at[i] {
			return false
		}
	}
	return true
}

func strConcat(a, b *StrV) *StrV {
	if a.Conc() && b.Conc() {
		return &StrV{S: a.S + b.S, T: a.T || b.T}
	}
	r := strFromBytes(append(append([]*Term(nil), a.Bytes()...), b.Bytes()...), a.T || b.T)
	if r.Conc() {
		return r
	}
	// keep the "selection among concrete strings" view when possible
	switch {
	case a.P != nil && b.Conc():
		pi := &pickInfo{idx: a.P.idx, at: a.P.at}
		for _, o := range a.P.opts {
			pi.opts = append(pi.opts, &StrV{S: o.S + b.S})
		}
		r.P = pi
	case b.P != nil && a.Conc():
		pi := &pickInfo{idx: b.P.idx, at: b.P.at}
		for _, o := range b.P.opts {
			pi.opts = append(pi.opts, &StrV{S: a.S + o.S})
		}
		r.P = pi
	case samePick(a.P, b.P):
		pi := &pickInfo{idx: a.P.idx, at: a.P.at}
		for i, o := range a.P.opts {
			pi.opts = append(pi.opts, &StrV{S: o.S + b.P.opts[i].S})
		}
		r.P = pi
	}
	return r
}

func strSlice(s *StrV, lo, hi int) *StrV {
	if s.Conc() {
		return &StrV{S: s.S[lo:hi], T: s.T}
	}
	r := strFromBytes(s.B[lo:hi], s.T)
	if s.P != nil && !r.Conc() {
		pi := &pickInfo{idx: s.P.idx, at: s.P.at}
		for _, o := range s.P.opts {
			pi.opts = append(pi.opts, &StrV{S: o.S[lo:hi]})
		}
		r.P = pi
	}
	return r
}

func strEq(a, b *StrV) *Term {
	if a.Len() != b.Len() {
		return tFalse
	}
	if a.Conc() && b.Conc() {
		return Bool(a.S == b.S)
	}
	r := tTrue
	for i := 0; i < a.Len(); i++ {
		r = And(r, Eq(a.Byte(i), b.Byte(i)))
		if r.IsFalse() {
			return r
		}
	}
	return r
}

func (s *StrV) Tainted() bool {
	if s.T {
		return true
	}
	for _, b := range s.B {
		if b.HasVarPrefix("draw", "tape") {
			return true
		}
	}
	return false
}

func (s *StrV) String() string {
	if s.Conc() {
		return fmt.Sprintf("%q", s.S)
	}
	var sb strings.Builder
	sb.WriteString("str[")
	for i, b := range s.B {
		if i > 0 {
			sb.WriteString(" ")
		}
		if b.IsConst() {
			fmt.Fprintf(&sb, "%02x", b.C)
		} else {
			sb.WriteString("?")
		}
	}
	sb.WriteString("]")
	return sb.String()
}

// ---- type helpers ----

func intWidth(t types.Type) (w int, signed bool, ok bool) {
	b, isb := t.Underlying().(*types.Basic)
	if !isb {
		return 0, false, false
	}
	switch b.Kind() {
	case types.Int8:
		return 8, true, true
	case types.Int16:
		return 16, true, true
	case types.Int32:
		return 32, true, true
	case types.Int64, types.Int, types.UntypedInt:
		return 64, true, true
	case types.Uint8:
		return 8, false, true
	case types.Uint16:
		return 16, false, true
	case types.Uint32:
		return 32, false, true
	case types.Uint64, types.Uint, types.Uintptr:
		return 64, false, true
	case types.UntypedRune:
		return 32, true, true
	}
	return 0, false, false
}

func isString(t types.Type) bool {
	b, ok := t.Underlying().(*types.Basic)
	return ok && b.Info()&types.IsString != 0
}

func isFloat(t types.Type) (int, bool) {
	b, ok := t.Underlying().(*types.Basic)
	if !ok {
		return 0, false
	}
	switch b.Kind() {
	case types.Float32:
		return 32, true
	case types.Float64, types.UntypedFloat:
		return 64, true
	}
	return 0, false
}

func isBool(t types.Type) bool {
	b, ok := t.Underlying().(*types.Basic)
	return ok && b.Info()&types.IsBoolean != 0
}

// zero builds the zero value of t; cells inside belong to obj.
func zero(t types.Type, o *Obj) Val {
	switch u := t.Underlying().(type) {
	case *types.Basic:
		if w, _, ok := intWidth(t); ok {
			return BV(w, 0)
		}
		if w, ok := isFloat(t); ok {
			return FloatV{0, w}
		}
		if isBool(t) {
			return tFalse
		}
		if isString(t) {
			return mkStr("")
		}
		if u.Kind() == types.UnsafePointer {
			return Ptr{}
		}
		if u.Kind() == types.UntypedNil {
			return nil
		}
		panic("zero: unsupported basic type " + t.String())
	case *types.Pointer:
		return Ptr{}
	case *types.Slice:
		return SliceV{}
	case *types.Map:
		return (*MapObj)(nil)
	case *types.Chan:
		return (*ChanObj)(nil)
	case *types.Signature:
		return (*Closure)(nil)
	case *types.Interface:
		return Iface{}
	case *types.Struct:
		s := &StructV{F: make([]*Cell, u.NumFields())}
		for i := range s.F {
			s.F[i] = &Cell{V: zero(u.Field(i).Type(), o), O: o}
		}
		return s
	case *types.Array:
		n := int(u.Len())
		a := &ArrV{E: make([]*Cell, n)}
		for i := range a.E {
			a.E[i] = &Cell{V: zero(u.Elem(), o), O: o}
		}
		return a
	case *types.Tuple:
		tv := make(TupleV, u.Len())
		for i := range tv {
			tv[i] = zero(u.At(i).Type(), o)
		}
		return tv
	}
	panic("zero: unsupported type " + t.String())
}

// copyVal returns a value-semantics copy (structs and arrays are deep-copied;
// everything else is immutable or a reference). New cells belong to o.
func copyVal(v Val, o *Obj) Val {
	switch x := v.(type) {
	case *StructV:
		n := &StructV{F: make([]*Cell, len(x.F))}
		for i, c := range x.F {
			n.F[i] = &Cell{V: copyVal(c.V, o), O: o}
		}
		return n
	case *ArrV:
		n := &ArrV{E: make([]*Cell, len(x.E))}
		for i, c := range x.E {
			n.E[i] = &Cell{V: copyVal(c.V, o), O: o}
		}
		return n
	}
	return v
}

// keyString gives a canonical string for a concrete comparable value.
func keyString(v Val) (string, bool) {
	switch x := v.(type) {
	case *Term:
		if !x.IsConst() {
			return "", false
		}
		return fmt.Sprintf("i%d:%d", x.W, x.C), true
	case *StrV:
		if !x.Conc() {
			return "", false
		}
		return "s:" + x.S, true
	case FloatV:
		return fmt.Sprintf("f%d:%v", x.W, x.F), true
	case Iface:
		if x.T == nil {
			return "I<nil>", true
		}
		ks, ok := keyString(x.V)
		return "I" + typeName(x.T) + "|" + ks, ok
	case Ptr:
		return fmt.Sprintf("p%p", x.C), true
	case *StructV:
		var sb strings.Builder
		sb.WriteString("{")
		for _, c := range x.F {
			ks, ok := keyString(c.V)
			if !ok {
				return "", false
			}
			sb.WriteString(ks + ";")
		}
		sb.WriteString("}")
		return sb.String(), true
	case *ArrV:
		var sb strings.Builder
		sb.WriteString("[")
		for _, c := range x.E {
			ks, ok := keyString(c.V)
			if !ok {
				return "", false
			}
			sb.WriteString(ks + ";")
		}
		sb.WriteString("]")
		return sb.String(), true
	case *MapObj:
		return fmt.Sprintf("m%p", x), true
	case *ChanObj:
		return fmt.Sprintf("c%p", x), true
	case *Closure:
		return fmt.Sprintf("fn%p", x), true
	case nil:
		return "nil", true
	}
	panic(fmt.Sprintf("keyString: unsupported %T", v))
}

// valEq builds the Go == relation as a Bool term.
func valEq(a, b Val) *Term {
	switch x := a.(type) {
	case *Term:
		y, ok := b.(*Term)
		if !ok {
			return tFalse
		}
		if x.W != y.W {
			return tFalse
		}
		return Eq(x, y)
	case *StrV:
		y, ok := b.(*StrV)
		if !ok {
			return tFalse
		}
		return strEq(x, y)
	case FloatV:
		y, ok := b.(FloatV)
		return Bool(ok && x.F == y.F)
	case Iface:
		y, ok := b.(Iface)
		if !ok {
			return tFalse
		}
		if x.T == nil || y.T == nil {
			return Bool(x.T == nil && y.T == nil)
		}
		if !types.Identical(x.T, y.T) {
			return tFalse
		}
		return valEq(x.V, y.V)
	case Ptr:
		y, ok := b.(Ptr)
		return Bool(ok && x.C == y.C)
	case *StructV:
		y, ok := b.(*StructV)
		if !ok || len(x.F) != len(y.F) {
			return tFalse
		}
		r := tTrue
		for i := range x.F {
			r = And(r, valEq(x.F[i].V, y.F[i].V))
		}
		return r
	case *ArrV:
		y, ok := b.(*ArrV)
		if !ok || len(x.E) != len(y.E) {
			return tFalse
		}
		r := tTrue
		for i := range x.E {
			r = And(r, valEq(x.E[i].V, y.E[i].V))
		}
		return r
	case *MapObj:
		y, _ := b.(*MapObj)
		return Bool(x == y)
	case *ChanObj:
		y, _ := b.(*ChanObj)
		return Bool(x == y)
	case *Closure:
		y, _ := b.(*Closure)
		return Bool(x == y)
	case SliceV:
		y, ok := b.(SliceV)
		return Bool(ok && x.A == nil && y.A == nil) // only nil comparisons are legal
	case nil:
		return Bool(b == nil)
	}
	panic(fmt.Sprintf("valEq: unsupported %T", a))
}

func showVal(v Val) string {
	switch x := v.(type) {
	case *Term:
		return x.String()
	case *StrV:
		return x.String()
	case FloatV:
		return fmt.Sprint(x.F)
	case Iface:
		if x.T == nil {
			return "nil"
		}
		return "(" + x.T.String() + ")" + showVal(x.V)
	case Ptr:
		if x.C == nil {
			return "nil"
		}
		return "&" + showVal(x.C.V)
	case *StructV:
		var p []string
		for _, c := range x.F {
			p = append(p, showVal(c.V))
		}
		return "{" + strings.Join(p, ",") + "}"
	case SliceV:
		var p []string
		for i := 0; i < x.Len && i < 12; i++ {
			p = append(p, showVal(x.A.E[x.Off+i].V))
		}
		return "[" + strings.Join(p, ",") + "]"
	case TupleV:
		var p []string
		for _, e := range x {
			p = append(p, showVal(e))
		}
		return "(" + strings.Join(p, ",") + ")"
	}
	return fmt.Sprintf("%T", v)
}
