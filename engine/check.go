package main

// `gosym check <id> --tier quick|thorough`: runs the harnesses of one property
// against /repo's current tree, replays counterexamples natively, prints the
// verdict lines and writes /verif/evidence/<id>.json.

import (
	"bufio"
	"flag"
	"fmt"
	"os"
	"path/filepath"
	"sort"
	"strconv"
	"strings"
	"time"
)

type P map[string]int

type HSpec struct {
	Name         string
	Label        string // distinguishes several runs of one harness function
	Quick        P
	Thorough     P
	Reach        []string // labels that must be reached on at least one feasible path
	Int          bool     // needs the INT back ends
	Unwind       int
	NoTagToo     bool // thorough: also run against the build without the verif tag
	ThoroughOnly bool
	MaxPaths     int
}

type PropSpec struct {
	ID        string
	Sub       string // harness set: spg | opgen
	Harnesses []HSpec
	Level     string
	Functions []string // the functions under test (for the evidence text)
	Bounds    map[string]string
	Assume    []string
	Extra     func(ctx *checkCtx)                           // additional native work (thorough tiers)
	Confirm   func(ctx *checkCtx, failures []*Failure) bool // property-specific native confirmation; returns true if it handled the failures
}

type knownEntry struct {
	kind, prop, key, text string
}

func loadKnown() []knownEntry {
	f, err := os.Open(filepath.Join(verifDir, "KNOWN_FINDINGS.txt"))
	if err != nil {
		return nil
	}
	defer f.Close()
	var out []knownEntry
	sc := bufio.NewScanner(f)
	for sc.Scan() {
		l := strings.TrimSpace(sc.Text())
		if l == "" || strings.HasPrefix(l, "#") {
			continue
		}
		var e knownEntry
		switch {
		case strings.HasPrefix(l, "known:"):
			e.kind = "known"
			l = strings.TrimSpace(strings.TrimPrefix(l, "known:"))
		case strings.HasPrefix(l, "fixed:"):
			e.kind = "fixed"
			l = strings.TrimSpace(strings.TrimPrefix(l, "fixed:"))
		default:
			continue
		}
		fields := strings.Fields(l)
		rest := []string{}
		for _, fl := range fields {
			switch {
			case strings.HasPrefix(fl, "property=") && e.prop == "":
				e.prop = strings.TrimPrefix(fl, "property=")
			case strings.HasPrefix(fl, "key=") && e.key == "":
				e.key = strings.TrimPrefix(fl, "key=")
			default:
				rest = append(rest, fl)
			}
		}
		e.text = strings.Join(rest, " ")
		out = append(out, e)
	}
	return out
}

type checkCtx struct {
	spec          *PropSpec
	tier          string
	seed          int
	violations    []string
	known         []string
	inconcl       []string
	notes         []string
	replays       int
	reproduced    int
	extraEvidence map[string]interface{}
}

func cmdCheck(args []string) int {
	fs := flag.NewFlagSet("check", flag.ExitOnError)
	tier := fs.String("tier", "quick", "quick|thorough")
	workers := fs.Int("w", 16, "workers")
	if len(args) < 1 {
		fmt.Fprintln(os.Stderr, "usage: gosym check <id> [--tier quick|thorough]")
		return 2
	}
	id := args[0]
	fs.Parse(args[1:])
	if t := os.Getenv("VERIF_TIER"); t == "quick" || t == "thorough" {
		if !flagSet(fs, "tier") {
			*tier = t
		}
	}
	seed := 0
	if s := os.Getenv("VERIF_SEED"); s != "" {
		seed, _ = strconv.Atoi(s)
	}
	spec := propSpecs()[id]
	if spec == nil {
		fmt.Fprintf(os.Stderr, "no check for property %s\n", id)
		return 2
	}
	return runCheck(spec, *tier, seed, *workers)
}

func flagSet(fs *flag.FlagSet, name string) bool {
	found := false
	fs.Visit(func(f *flag.Flag) {
		if f.Name == name {
			found = true
		}
	})
	return found
}

func runCheck(spec *PropSpec, tier string, seed, workers int) int {
	start := time.Now()
	ctx := &checkCtx{spec: spec, tier: tier, seed: seed, extraEvidence: map[string]interface{}{}}
	known := loadKnown()
	stats := newSolverStats()
	evidencePath := filepath.Join(evidenceDir(), spec.ID+".json")
	os.Remove(evidencePath)

	type variant struct {
		tags []string
		name string
	}
	variants := []variant{{[]string{"verif"}, "tag verif"}}
	var results []*HarnessResult
	var loadSecs float64
	head := repoHead()
	fail := func(msg string) int {
		// an error of the machinery itself is neither a pass nor a violation
		fmt.Printf("INCONCLUSIVE property=%s %s\n", spec.ID, msg)
		ctx.inconcl = append(ctx.inconcl, msg)
		writeEvidence(ctx, results, stats, head, loadSecs, time.Since(start).Seconds())
		return 0
	}
	progs := map[string]*Program{}
	for _, v := range variants {
		p, err := loadFor(spec.Sub, v.tags)
		if err != nil {
			// a tree that does not compile with the harness cannot be judged
			return fail("cannot load /repo with the harness: " + firstLine(err.Error()))
		}
		progs[v.name] = p
		loadSecs += p.loadSecs
	}
	var allFailures []*Failure
	for _, hs := range spec.Harnesses {
		params := hs.Quick
		if tier == "thorough" && hs.Thorough != nil {
			params = hs.Thorough
		}
		if tier == "quick" && hs.ThoroughOnly {
			continue
		}
		cfg := defaultCfg(hs.Name)
		cfg.Workers = workers
		cfg.IntSolvers = hs.Int
		cfg.CrossCheck = tier == "thorough"
		cfg.MaxSeconds = 420
		if tier == "thorough" {
			cfg.MaxSeconds = 1500
			cfg.MaxPaths = 3000000
		}
		if hs.Unwind > 0 {
			cfg.Unwind = hs.Unwind
		}
		if hs.MaxPaths > 0 {
			cfg.MaxPaths = hs.MaxPaths
		}
		for k, v := range params {
			cfg.Params[k] = v
		}
		runVariants := []string{"tag verif"}
		for _, vn := range runVariants {
			hr, err := Explore(progs[vn], hs.Name, cfg, stats)
			if err != nil {
				return fail("engine error in " + hs.Name + ": " + firstLine(err.Error()))
			}
			hr.Name = hs.Name
			if hs.Label != "" {
				hr.Name = hs.Name + "/" + hs.Label
			}
			results = append(results, hr)
			fmt.Printf("  %s [%s] paths=%d %v asserts=%d(+%d) failures=%d inconclusive=%d %.1fs\n", hs.Name, tier, hr.Paths, hr.ByStatus, hr.Asserts, hr.TrivAssert, len(hr.Failures), len(hr.Inconcl), hr.WallS)
			for _, l := range hs.Reach {
				if hr.Reached[l] == 0 {
					ctx.inconcl = append(ctx.inconcl, fmt.Sprintf("%s: reachability witness %q not reached (vacuity guard)", hs.Name, l))
				}
			}
			ic := map[string]int{}
			for _, s := range hr.Inconcl {
				ic[s]++
			}
			for s, n := range ic {
				ctx.inconcl = append(ctx.inconcl, fmt.Sprintf("%s: %s (x%d)", hs.Name, s, n))
			}
			for why, n := range hr.Unmodelled {
				ctx.inconcl = append(ctx.inconcl, fmt.Sprintf("%s: unmodelled: %s (x%d paths)", hs.Name, why, n))
			}
			if hr.BudgetHit {
				ctx.inconcl = append(ctx.inconcl, hs.Name+": path or time budget of the exploration exhausted")
			}
			allFailures = append(allFailures, hr.Failures...)
		}
	}
	if spec.Confirm != nil && len(allFailures) > 0 {
		var rest []*Failure
		var mine []*Failure
		for _, f := range allFailures {
			if strings.Contains(f.Msg, "shared") {
				mine = append(mine, f)
			} else {
				rest = append(rest, f)
			}
		}
		if len(mine) > 0 && spec.Confirm(ctx, mine) {
			allFailures = rest
		}
	}
	// replay counterexamples natively, grouped
	if len(allFailures) > 0 {
		rp, err := NewReplayer(spec.Sub)
		if err != nil {
			ctx.inconcl = append(ctx.inconcl, "native replay build failed: "+firstLine(err.Error()))
		} else {
			defer rp.Close()
			groups := map[string][]*Failure{}
			var order []string
			for _, f := range allFailures {
				k := f.Harness + "|" + f.Msg + "|" + f.Known
				if _, ok := groups[k]; !ok {
					order = append(order, k)
				}
				groups[k] = append(groups[k], f)
			}
			sort.Strings(order)
			for gi, k := range order {
				fsl := groups[k]
				f0 := fsl[0]
				reproduced := false
				var rpath string
				tried := 0
				// spread the attempts over the group (neighbouring paths tend to
				// share whatever makes a counterexample spurious)
				pick := map[int]bool{}
				for q := 0; q < 6; q++ {
					pick[q*len(fsl)/6] = true
				}
				for i, f := range fsl {
					if tried >= 6 {
						break
					}
					if !f.Valid || !pick[i] {
						continue
					}
					tried++
					f.Replay.Property = spec.ID
					f.Replay.Tier = tier
					f.Replay.Known = f.Known
					path := filepath.Join(verifDir, "replays", spec.ID, fmt.Sprintf("%s-%d-%d.json", f.Harness, gi, i))
					writeJSON(path, f.Replay)
					out, verdict := rp.Run(path)
					ctx.replays++
					if verdict == "reproduced" {
						reproduced = true
						rpath = path
						ctx.reproduced++
						break
					}
					ctx.notes = append(ctx.notes, fmt.Sprintf("replay of %q (%s): %s %s", f.Msg, f.Harness, verdict, lastLines(out, 2)))
					os.Remove(path)
				}
				desc := fmt.Sprintf("%s: %s (%d paths)", f0.Harness, f0.Msg, len(fsl))
				if f0.Detail != "" {
					desc += " [" + f0.Detail + "]"
				}
				switch {
				case reproduced && f0.Known != "" && isKnown(known, spec.ID, f0.Known):
					ctx.known = append(ctx.known, fmt.Sprintf("KNOWN-FINDING: property=%s key=%s %s replay=%s", spec.ID, f0.Known, desc, rpath))
				case reproduced:
					ctx.violations = append(ctx.violations, fmt.Sprintf("VIOLATION property=%s replay=%s", spec.ID, rpath))
					ctx.notes = append(ctx.notes, "violation: "+desc)
				default:
					ctx.inconcl = append(ctx.inconcl, "counterexample did not reproduce natively: "+desc)
				}
			}
		}
	}
	if spec.Extra != nil {
		spec.Extra(ctx)
	}
	wall := time.Since(start).Seconds()
	writeEvidence(ctx, results, stats, head, loadSecs, wall)
	for _, l := range ctx.known {
		fmt.Println(l)
	}
	for _, l := range dedup(ctx.inconcl) {
		fmt.Printf("INCONCLUSIVE property=%s %s\n", spec.ID, l)
	}
	for _, l := range ctx.notes {
		fmt.Println("note:", l)
	}
	if len(ctx.violations) > 0 {
		for _, l := range ctx.violations {
			fmt.Println(l)
		}
		return 1
	}
	if len(ctx.inconcl) == 0 {
		fmt.Printf("HELD property=%s tier=%s (within the bounds stated in %s) %.1fs\n", spec.ID, tier, evidencePath, wall)
	}
	return 0
}

func isKnown(known []knownEntry, prop, key string) bool {
	for _, e := range known {
		if e.kind == "known" && e.prop == prop && e.key == key {
			return true
		}
	}
	return false
}

func dedup(ss []string) []string {
	seen := map[string]bool{}
	var out []string
	for _, s := range ss {
		if !seen[s] {
			seen[s] = true
			out = append(out, s)
		}
	}
	return out
}

func firstLine(s string) string {
	if i := strings.IndexByte(s, '\n'); i >= 0 {
		rest := s[i+1:]
		if j := strings.IndexByte(rest, '\n'); j >= 0 {
			rest = rest[:j]
		}
		return s[:i] + " | " + rest
	}
	return s
}

func lastLines(s string, n int) string {
	ls := strings.Split(strings.TrimSpace(s), "\n")
	if len(ls) > n {
		ls = ls[len(ls)-n:]
	}
	return strings.Join(ls, " / ")
}

func writeEvidence(ctx *checkCtx, results []*HarnessResult, stats *SolverStats, head string, loadSecs, wall float64) {
	spec := ctx.spec
	paths, asserts, triv, steps := 0, 0, 0, int64(0)
	decisions := 0
	nontriv := 0
	byStatus := map[string]int{}
	funcs := map[string]int{}
	var samples []interface{}
	harnesses := []map[string]interface{}{}
	for _, hr := range results {
		paths += hr.Paths
		asserts += hr.Asserts
		triv += hr.TrivAssert
		steps += hr.Steps
		decisions += hr.Decisions
		for k, v := range hr.ByStatus {
			byStatus[k] += v
		}
		nontriv += hr.ByStatus["ok"] + hr.ByStatus["assertfail"]
		for f, n := range hr.Funcs {
			funcs[f] += n
		}
		for _, s := range hr.Samples {
			if len(samples) < 12 {
				s["harness"] = hr.Name
				samples = append(samples, s)
			}
		}
		notes := map[string]int{}
		for k, vs := range hr.Notes {
			notes[k] = len(vs)
		}
		harnesses = append(harnesses, map[string]interface{}{
			"name": hr.Name, "paths": hr.Paths, "by_status": hr.ByStatus, "assertion_queries_unsat": hr.Asserts,
			"assertions_true_by_construction": hr.TrivAssert, "failures": len(hr.Failures), "reach_witnesses": hr.Reached,
			"max_draws_on_a_path": hr.MaxDraws, "decisions": hr.Decisions, "wall_s": round2(hr.WallS), "distinct_notes": notes,
		})
	}
	if len(samples) == 0 {
		samples = append(samples, map[string]interface{}{"note": "no path completed"})
	}
	var encoded []string
	for f := range funcs {
		if strings.Contains(f, "go.1password.io/spg") || strings.Contains(f, "golang-set") || strings.HasPrefix(f, "strings.") || strings.HasPrefix(f, "unicode/utf8.") || strings.HasPrefix(f, "encoding/binary") || strings.HasPrefix(f, "(encoding/binary") {
			if !strings.Contains(f, ".H") && !strings.Contains(f, ".h") || strings.Contains(f, "has") {
				encoded = append(encoded, fmt.Sprintf("%s x%d", f, funcs[f]))
			}
		}
	}
	sort.Strings(encoded)
	queries := 0
	stats.mu.Lock()
	q := map[string]int{}
	for k, v := range stats.Queries {
		q[k] = v
		queries += v
	}
	secs := map[string]float64{}
	for k, v := range stats.Seconds {
		secs[k] = round2(v)
	}
	serrs, restarts := stats.Errors, stats.Restarts
	stats.mu.Unlock()
	cov := map[string]interface{}{
		"states":                           max1(paths),
		"transitions":                      max1(queries),
		"traces_validated_against_impl":    ctx.replays,
		"samples":                          samples,
		"evaluations":                      max1(paths),
		"distinct_nontrivial":              nontriv,
		"rule":                             "one evaluation = one explored path of a harness (a distinct decision prefix over symbolic branches, choice points and forked sizes); non-trivial = the path ran to the end of the harness with its assertions decided by the solver or by term identity (infeasible, cut or unmodelled paths are not counted)",
		"exhaustive":                       len(ctx.inconcl) == 0,
		"technique":                        "bounded symbolic execution of go/ssa of /repo's working tree; every branch feasibility and assertion decided by SMT (z3 4.8.12 QF_BV; z3 5.1.0 and cvc5 1.0 for the integer encoding and cross-checks); counterexamples replayed natively before being reported",
		"repo_head":                        head,
		"build_tags":                       []string{"verif"},
		"functions_encoded":                encoded,
		"harnesses":                        harnesses,
		"paths_by_status":                  byStatus,
		"assertion_queries_discharged":     asserts,
		"assertions_true_by_term_identity": triv,
		"solver_queries_by_kind":           q,
		"solver_seconds":                   secs,
		"solver_errors":                    serrs,
		"solver_restarts":                  restarts,
		"ssa_instructions_executed":        steps,
		"load_and_ssa_build_s":             round2(loadSecs),
		"bounds":                           spec.Bounds,
		"inconclusive":                     dedup(ctx.inconcl),
		"known_findings_reported":          ctx.known,
		"native_replays_reproduced":        ctx.reproduced,
		"notes":                            ctx.notes,
	}
	for k, v := range ctx.extraEvidence {
		cov[k] = v
	}
	ev := map[string]interface{}{
		"property_id": spec.ID,
		"tier":        ctx.tier,
		"seed":        ctx.seed,
		"level":       spec.Level,
		"coverage":    cov,
		"assumptions": spec.Assume,
		"wall_s":      round2(wall),
		"violations":  len(ctx.violations),
	}
	if spec.Level == "other" {
		cov["explanation"] = "see technique and harnesses"
	}
	writeJSON(filepath.Join(evidenceDir(), spec.ID+".json"), ev)
}

func max1(n int) int {
	if n < 1 {
		return 1
	}
	return n
}

func round2(f float64) float64 { return float64(int(f*100+0.5)) / 100 }

// c09NativeDeterminism runs H09d natively on pseudo-random source bytes: the
// confirmation channel for paths the engine had to stop at an unmodelled
// environment call (math/rand, time, ...): if the real code's choices are not a
// function of the source bytes, the native run shows it.
func c09NativeDeterminism(ctx *checkCtx) {
	rp, err := NewReplayer("spg")
	if err != nil {
		ctx.inconcl = append(ctx.inconcl, "native determinism run: build failed: "+firstLine(err.Error()))
		return
	}
	defer rp.Close()
	rng := uint64(ctx.seed)*6364136223846793005 + 1442695040888963407
	runs, bad := 0, 0
	for kind := 0; kind < 5; kind++ {
		for rep := 0; rep < 4; rep++ {
			tape := make([]byte, 512)
			for i := range tape {
				rng = rng*6364136223846793005 + 1442695040888963407
				tape[i] = byte(rng >> 33)
			}
			rf := &ReplayFile{Property: "C09", Harness: "H09d", Tier: ctx.tier, Values: map[string]uint64{}, Bytes: map[string]string{}, Choices: map[string]int{"recipe": kind}, Tape: fmt.Sprintf("%x", tape), Expect: "native determinism run", Params: map[string]int{"recipes": 5}}
			path := filepath.Join(verifDir, "replays", "C09", fmt.Sprintf("native-H09d-%d-%d.json", kind, rep))
			writeJSON(path, rf)
			_, verdict := rp.Run(path)
			runs++
			ctx.replays++
			if verdict == "reproduced" {
				bad++
				ctx.reproduced++
				ctx.violations = append(ctx.violations, fmt.Sprintf("VIOLATION property=C09 replay=%s", path))
				ctx.notes = append(ctx.notes, "violation: native determinism run: the same recipe on the same source bytes made different choices (or consumed a different number of bytes)")
				return
			}
			os.Remove(path)
		}
	}
	ctx.extraEvidence["native_determinism_runs"] = runs
}

// c14RaceConfirm: a path on which an API call writes shared memory is a
// candidate; it is reported only if the native stress test under the race
// detector reports a data race or an invalid result (DESIGN §5 C14).
func c14RaceConfirm(ctx *checkCtx, failures []*Failure) bool {
	sites := map[string]int{}
	for _, f := range failures {
		sites[f.Detail]++
	}
	rp, err := NewRaceReplayer("spg")
	if err != nil {
		ctx.inconcl = append(ctx.inconcl, "race confirmation build failed: "+firstLine(err.Error()))
		return true
	}
	defer rp.Close()
	out, verdict := rp.RunRace()
	ctx.replays++
	desc := fmt.Sprintf("%d paths on which an API call writes memory shared with other callers", len(failures))
	if len(failures) > 0 && failures[0].Replay != nil {
		desc += " (first: " + failures[0].Msg + ")"
	}
	if verdict == "reproduced" {
		ctx.reproduced++
		path := filepath.Join(verifDir, "replays", "C14", "race-0.json")
		rf := &ReplayFile{Property: "C14", Harness: "H14", Tier: ctx.tier, Expect: "race", Msg: firstLine(out), Values: map[string]uint64{}, Bytes: map[string]string{}, Choices: map[string]int{}}
		writeJSON(path, rf)
		ctx.violations = append(ctx.violations, fmt.Sprintf("VIOLATION property=C14 replay=%s", path))
		ctx.notes = append(ctx.notes, "violation: "+desc+"; confirmed natively: "+firstLine(out))
	} else {
		ctx.inconcl = append(ctx.inconcl, "shared-write candidate not confirmed by the race detector ("+verdict+"): "+desc)
	}
	return true
}

// c14RaceAlways: thorough tier runs the race stress as supplementary evidence.
func c14RaceAlways(ctx *checkCtx) {
	if ctx.tier != "thorough" || len(ctx.violations) > 0 {
		return
	}
	rp, err := NewRaceReplayer("spg")
	if err != nil {
		ctx.inconcl = append(ctx.inconcl, "race stress build failed: "+firstLine(err.Error()))
		return
	}
	defer rp.Close()
	out, verdict := rp.RunRace()
	ctx.replays++
	ctx.extraEvidence["native_race_stress"] = firstLine(out)
	if verdict == "reproduced" {
		path := filepath.Join(verifDir, "replays", "C14", "race-0.json")
		writeJSON(path, &ReplayFile{Property: "C14", Harness: "H14", Tier: ctx.tier, Expect: "race", Msg: firstLine(out), Values: map[string]uint64{}, Bytes: map[string]string{}, Choices: map[string]int{}})
		ctx.violations = append(ctx.violations, fmt.Sprintf("VIOLATION property=C14 replay=%s", path))
		ctx.notes = append(ctx.notes, "violation: native race stress: "+firstLine(out))
	}
}

// c17NativeSweep: when the engine had to stop paths at an unmodelled environment
// call (e.g. a different way of reading the word file), the harness is run
// natively - on the built binary - over its file / size / entropy choices.
func c17NativeSweep(ctx *checkCtx) {
	unmodelled := false
	for _, s := range ctx.inconcl {
		if strings.Contains(s, "unmodelled") {
			unmodelled = true
		}
	}
	if !unmodelled && ctx.tier != "thorough" {
		return
	}
	rp, err := NewReplayer("opgen")
	if err != nil {
		ctx.inconcl = append(ctx.inconcl, "native sweep build failed: "+firstLine(err.Error()))
		return
	}
	defer rp.Close()
	runs := 0
	for file := 1; file <= 4; file++ {
		for size := 0; size < 3; size++ {
			for entropy := 0; entropy < 2; entropy++ {
				rf := &ReplayFile{Property: "C17", Harness: "HO17w", Tier: ctx.tier, Values: map[string]uint64{}, Bytes: map[string]string{},
					Choices: map[string]int{"file": file, "size": size, "entropy": entropy, "separator": 0, "capitalize": 0, "list": 0}, Params: map[string]int{}, Expect: "native sweep"}
				path := filepath.Join(verifDir, "replays", "C17", fmt.Sprintf("native-HO17w-%d-%d-%d.json", file, size, entropy))
				writeJSON(path, rf)
				out, verdict := rp.Run(path)
				runs++
				ctx.replays++
				if verdict == "reproduced" {
					ctx.reproduced++
					ctx.violations = append(ctx.violations, fmt.Sprintf("VIOLATION property=C17 replay=%s", path))
					ctx.notes = append(ctx.notes, "violation: native run of the built binary: "+lastLines(out, 1))
					return
				}
				os.Remove(path)
			}
		}
	}
	ctx.extraEvidence["native_binary_runs"] = runs
}

// evidenceDir: /verif/evidence, unless a tool that runs checks against a
// deliberately modified tree (seeded changes, refactorings) redirects it.
func evidenceDir() string {
	if d := os.Getenv("GOSYM_EVIDENCE_DIR"); d != "" {
		return d
	}
	return filepath.Join(verifDir, "evidence")
}
