package main

import (
	"fmt"
	"go/types"

	"golang.org/x/tools/go/ssa"
)

func (m *Machine) prepareCall(fr *frame, c *ssa.CallCommon) (Val, []Val) {
	var args []Val
	var fn Val
	if c.IsInvoke() {
		recv := fr.get(m, c.Value).(Iface)
		if recv.T == nil {
			m.rtPanic("method call on nil interface value (" + c.Method.Name() + ")")
		}
		if recv.T == reflectTypeMarker {
			if c.Method.Name() != "Name" {
				m.unmodelled("reflect.Type.%s", c.Method.Name())
			}
			// reflect.TypeOf(x).Name(): the name of a defined type, "" otherwise
			inner := recv.V.(Iface)
			name := ""
			if inner.T != nil {
				if nt, ok := inner.T.(*types.Named); ok {
					name = nt.Obj().Name()
				} else if bt, ok := inner.T.(*types.Basic); ok {
					name = bt.Name()
				}
			}
			return preResult{mkStr(name)}, nil
		}
		f := m.prog.lookupMethod(recv.T, c.Method)
		if f == nil {
			m.unmodelled("no method %s for dynamic type %s", c.Method.Name(), recv.T)
		}
		fn = &Closure{Fn: f}
		args = append(args, recv.V)
	} else {
		fn = fr.get(m, c.Value)
	}
	for _, a := range c.Args {
		args = append(args, fr.get(m, a))
	}
	return fn, args
}

// preResult is a callee whose result has already been computed by a model.
type preResult struct{ v Val }

func (m *Machine) doCall(fr *frame, c *ssa.CallCommon, site ssa.Instruction) Val {
	fn, args := m.prepareCall(fr, c)
	return m.callValue(fn, args, fr, site)
}

func (m *Machine) callBuiltin(b *ssa.Builtin, args []Val, caller *frame, site ssa.Instruction) Val {
	switch b.Name() {
	case "len":
		switch x := args[0].(type) {
		case *StrV:
			return BV(64, uint64(x.Len()))
		case SliceV:
			return BV(64, uint64(x.Len))
		case *MapObj:
			if x == nil {
				return BV(64, 0)
			}
			if x.nsym > 0 {
				// entries with symbolic keys were deduplicated at insertion
			}
			return BV(64, uint64(x.n))
		case *ArrV:
			return BV(64, uint64(len(x.E)))
		case Ptr:
			return BV(64, uint64(len(x.C.V.(*ArrV).E)))
		case *ChanObj:
			return BV(64, uint64(len(x.q)))
		}
	case "ssa:wrapnilchk":
		if p, ok := args[0].(Ptr); ok && p.C == nil {
			m.rtPanic("value method called using nil pointer")
		}
		return args[0]
	case "cap":
		switch x := args[0].(type) {
		case SliceV:
			return BV(64, uint64(x.Cap))
		case *ArrV:
			return BV(64, uint64(len(x.E)))
		}
	case "append":
		return m.appendSlice(args[0].(SliceV), args[1], site)
	case "copy":
		dst := args[0].(SliceV)
		n := dst.Len
		switch src := args[1].(type) {
		case SliceV:
			if src.Len < n {
				n = src.Len
			}
			tmp := make([]Val, n)
			for i := 0; i < n; i++ {
				tmp[i] = copyVal(src.A.E[src.Off+i].V, nil)
			}
			for i := 0; i < n; i++ {
				m.storeCell(dst.A.E[dst.Off+i], tmp[i], "copy")
			}
		case *StrV:
			if src.Len() < n {
				n = src.Len()
			}
			for i := 0; i < n; i++ {
				m.storeCell(dst.A.E[dst.Off+i], src.Byte(i), "copy")
			}
		}
		return BV(64, uint64(n))
	case "delete":
		mo := args[0].(*MapObj)
		m.mapDelete(mo, args[1], "delete")
		return nil
	case "close":
		ch := args[0].(*ChanObj)
		m.chanTouch(ch, "close")
		ch.closed = true
		return nil
	case "panic":
		panic(&goPanic{v: args[0], msg: m.panicText(args[0])})
	case "recover":
		// recover is effective only when called directly by a deferred function
		if caller != nil && caller.caller != nil && caller.caller.panicking {
			p := caller.caller
			p.panicking = false
			if p.pan.v != nil {
				return p.pan.v
			}
			// runtime error: hand back an error value carrying the message
			return m.makeError("runtime error: " + p.pan.msg)
		}
		return Iface{}
	case "print", "println":
		m.outputs = append(m.outputs, OutEvent{Sink: "builtin " + b.Name(), Tainted: anyTainted(args)})
		return nil
	case "min", "max":
		r := args[0].(*Term)
		for _, a := range args[1:] {
			t := a.(*Term)
			lt := Cmp("bvslt", t, r)
			if b.Name() == "max" {
				lt = Cmp("bvslt", r, t)
			}
			r = Ite(lt, t, r)
		}
		return r
	}
	m.unmodelled("builtin %s on %T", b.Name(), args[0])
	return nil
}

func (m *Machine) appendSlice(s SliceV, more Val, site ssa.Instruction) Val {
	var add []Val
	switch x := more.(type) {
	case SliceV:
		for i := 0; i < x.Len; i++ {
			add = append(add, copyVal(x.A.E[x.Off+i].V, nil))
		}
	case *StrV:
		for _, b := range x.Bytes() {
			add = append(add, b)
		}
	}
	if len(add) == 0 {
		return s
	}
	if s.A != nil && s.Len+len(add) <= s.Cap {
		// in place: writes into the existing backing array
		for i, v := range add {
			c := s.A.E[s.Off+s.Len+i]
			m.storeCell(c, copyVal(v, c.O), "append in place")
		}
		return SliceV{A: s.A, Off: s.Off, Len: s.Len + len(add), Cap: s.Cap}
	}
	newCap := s.Len + len(add)
	if newCap < 2*s.Cap {
		newCap = 2 * s.Cap
	}
	o := m.newObj("append")
	a := &ArrObj{E: make([]*Cell, newCap), O: o}
	var et types.Type
	if call, ok := site.(*ssa.Call); ok {
		et = call.Type().Underlying().(*types.Slice).Elem()
	} else if d, ok := site.(*ssa.Defer); ok {
		et = d.Call.Args[0].Type().Underlying().(*types.Slice).Elem()
	}
	for i := 0; i < newCap; i++ {
		switch {
		case i < s.Len:
			a.E[i] = &Cell{V: copyVal(s.A.E[s.Off+i].V, o), O: o}
		case i < s.Len+len(add):
			a.E[i] = &Cell{V: copyVal(add[i-s.Len], o), O: o}
		default:
			a.E[i] = &Cell{V: zero(et, o), O: o}
		}
	}
	return SliceV{A: a, Off: 0, Len: s.Len + len(add), Cap: newCap}
}

func anyTainted(args []Val) bool {
	for _, a := range args {
		if valTainted(a, 0) {
			return true
		}
	}
	return false
}

// valTainted reports whether a value carries information from random draws.
func valTainted(v Val, depth int) bool {
	if depth > 6 {
		return false
	}
	switch x := v.(type) {
	case *Term:
		return x.HasVarPrefix("draw", "tape")
	case *StrV:
		return x.Tainted()
	case Iface:
		return x.T != nil && valTainted(x.V, depth+1)
	case Ptr:
		return x.C != nil && valTainted(x.C.V, depth+1)
	case *StructV:
		for _, c := range x.F {
			if valTainted(c.V, depth+1) {
				return true
			}
		}
	case *ArrV:
		for _, c := range x.E {
			if valTainted(c.V, depth+1) {
				return true
			}
		}
	case SliceV:
		for i := 0; i < x.Len; i++ {
			if valTainted(x.A.E[x.Off+i].V, depth+1) {
				return true
			}
		}
	case TupleV:
		for _, e := range x {
			if valTainted(e, depth+1) {
				return true
			}
		}
	}
	return false
}

func (m *Machine) makeError(msg string) Val {
	f := m.prog.errorsNew
	if f == nil {
		m.unmodelled("errors.New not available")
	}
	return m.callFn(f, []Val{mkStr(msg)}, nil, nil, nil)
}

func (m *Machine) makeErrorStr(s *StrV) Val {
	f := m.prog.errorsNew
	return m.callFn(f, []Val{s}, nil, nil, nil)
}

var _ = fmt.Sprint
