package main

// Intercepted callees (DESIGN §3.6) and the harness intrinsics.

import (
	"fmt"
	"go/token"
	"go/types"
	"math"
	"math/big"
	"runtime"
	"sort"
	"strconv"
	"strings"
	"unicode"
	"unicode/utf8"

	"golang.org/x/tools/go/ssa"
)

type big_Int = big.Int
type big_Float = big.Float

func runtimeStack(buf []byte) int { return runtime.Stack(buf, false) }

func (m *Machine) initSpecialGlobals() {
	// os.Stdout / os.Stderr: distinct non-nil *os.File values; writes through
	// them are recorded as output events by the fmt/os intercepts
	if op := m.prog.pkgs["os"]; op != nil {
		if ft, ok := op.Members["File"].(*ssa.Type); ok {
			for _, name := range []string{"Stdout", "Stderr", "Stdin"} {
				if g, ok := op.Members[name].(*ssa.Global); ok {
					m.specialGlobal = true
					c := m.globalCell(g)
					m.specialGlobal = false
					fc := &Cell{V: zero(ft.Type(), c.O), O: c.O}
					c.V = Ptr{fc}
					switch name {
					case "Stdout":
						m.stdoutCell = fc
					case "Stderr":
						m.stderrCell = fc
					}
				}
			}
		}
	}
	// crypto/rand.Reader: a non-nil io.Reader whose dynamic type is the
	// package's own reader type; its Read method is intercepted below.
	if rp := m.prog.pkgs["crypto/rand"]; rp != nil {
		if g, ok := rp.Members["Reader"].(*ssa.Global); ok {
			var rt types.Type
			if tn, ok := rp.Members["reader"].(*ssa.Type); ok {
				rt = types.NewPointer(tn.Type())
			}
			if rt != nil {
				m.specialGlobal = true
				c := m.globalCell(g)
				m.specialGlobal = false
				c.V = Iface{T: rt, V: Ptr{&Cell{V: zero(rt.(*types.Pointer).Elem(), c.O), O: c.O}}}
			}
		}
	}
}

type handler func() Val

func conc(v Val) (string, bool) {
	s, ok := v.(*StrV)
	if !ok || !s.Conc() {
		return "", false
	}
	return s.S, true
}

func (m *Machine) strSliceToNative(v Val) ([]string, bool) {
	s := v.(SliceV)
	out := make([]string, s.Len)
	for i := range out {
		e, ok := conc(s.A.E[s.Off+i].V)
		if !ok {
			return nil, false
		}
		out[i] = e
	}
	return out, true
}

func (m *Machine) strSliceTaint(v Val) bool {
	s := v.(SliceV)
	for i := 0; i < s.Len; i++ {
		if s.A.E[s.Off+i].V.(*StrV).T {
			return true
		}
	}
	return false
}

func (m *Machine) nativeStrSlice(ss []string, taint bool) Val {
	o := m.newObj("native []string")
	a := &ArrObj{E: make([]*Cell, len(ss)), O: o}
	for i, s := range ss {
		a.E[i] = &Cell{V: &StrV{S: s, T: taint}, O: o}
	}
	return SliceV{A: a, Len: len(ss), Cap: len(ss)}
}

func bv64(n int) *Term { return BV(64, uint64(n)) }

// intercept returns a handler when fn is modelled rather than executed.
func (m *Machine) intercept(fn *ssa.Function, args []Val, caller *frame, site ssa.Instruction) handler {
	name := m.prog.fnName(fn)
	if fn.Pkg != nil && fn.Pkg == m.prog.main && strings.HasPrefix(fn.Name(), "v") && fn.Blocks == nil {
		return m.intrinsic(fn, args, caller)
	}
	// init of packages that are not on the allow list: skip
	if fn.Name() == "init" && fn.Pkg != nil && fn.Signature.Recv() == nil && fn.Parent() == nil {
		if fn.Pkg != m.prog.main && !m.prog.initAllow[fn.Pkg.Pkg.Path()] {
			return func() Val { return nil }
		}
	}
	if m.summary && fn.Name() == "randomUint32n" && fn.Pkg != nil && fn.Pkg.Pkg.Path() == "go.1password.io/spg" && fn.Signature.Recv() == nil {
		return func() Val { return m.drawSummary(args[0].(*Term)) }
	}
	switch name {
	case "crypto/rand.Read":
		return func() Val { return m.randRead(args[0].(SliceV), true) }
	case "(*crypto/rand.reader).Read":
		return func() Val { return m.randRead(args[1].(SliceV), false) }
	case "(*sync.RWMutex).Lock", "(*sync.RWMutex).Unlock", "(*sync.RWMutex).RLock", "(*sync.RWMutex).RUnlock",
		"(*sync.Mutex).Lock", "(*sync.Mutex).Unlock":
		return func() Val {
			if m.res != nil {
				m.res.Notes["lock:"+name] = "called"
			}
			return nil
		}
	case "(*sync.Map).Load", "(*sync.Map).Store", "(*sync.Map).LoadOrStore", "(*sync.Map).Delete", "(*sync.Map).LoadAndDelete", "(*sync.Map).Range", "(*sync.Map).Swap", "(*sync.Map).CompareAndSwap":
		return func() Val { return m.syncMapOp(fn.Name(), args, caller) }
	case "flag.NewFlagSet":
		return func() Val {
			o := m.newObj("flag.FlagSet " + argStrOr(args[0], "?"))
			c := &Cell{V: tFalse, O: o}
			if m.flagSets == nil {
				m.flagSets = map[*Cell]*flagSetModel{}
			}
			m.flagSets[c] = &flagSetModel{name: argStrOr(args[0], "?"), vars: map[string]*flagVar{}}
			return Ptr{c}
		}
	case "(*flag.FlagSet).Int", "(*flag.FlagSet).String", "(*flag.FlagSet).Bool":
		return func() Val {
			fs := m.flagSets[args[0].(Ptr).C]
			if fs == nil {
				m.unmodelled("flag variable on an unmodelled FlagSet")
			}
			o := m.newObj("flag variable " + argStrOr(args[1], "?"))
			c := &Cell{V: args[2], O: o}
			kind := strings.ToLower(fn.Name())
			fs.vars[argStrOr(args[1], "?")] = &flagVar{kind: kind, cell: c}
			fs.order = append(fs.order, argStrOr(args[1], "?"))
			return Ptr{c}
		}
	case "(*flag.FlagSet).Parse":
		return func() Val { return m.flagParse(args[0].(Ptr).C, args[1].(SliceV)) }
	case "flag.Parse":
		return func() Val { return nil }
	case "io/ioutil.ReadFile", "os.ReadFile":
		return func() Val {
			if !m.fileSet || m.fileContent == nil {
				return TupleV{SliceV{}, m.makeError("open: no such file or directory")}
			}
			bs := m.fileContent.Bytes()
			o := m.newObj("file content")
			a := &ArrObj{E: make([]*Cell, len(bs)), O: o}
			for i, b := range bs {
				a.E[i] = &Cell{V: b, O: o}
			}
			return TupleV{SliceV{A: a, Len: len(bs), Cap: len(bs)}, Iface{}}
		}
	case "(*strings.Builder).WriteString", "(*strings.Builder).WriteByte", "(*strings.Builder).WriteRune", "(*strings.Builder).Write",
		"(*strings.Builder).String", "(*strings.Builder).Len", "(*strings.Builder).Reset", "(*strings.Builder).Grow", "(*strings.Builder).Cap":
		return func() Val { return m.stringsBuilderOp(fn.Name(), args) }
	case "(*sync.Pool).Get", "(*sync.Pool).Put":
		return func() Val { return m.syncPoolOp(fn.Name(), args, caller) }
	case "(*sync.Once).Do":
		return func() Val { return m.syncOnceDo(args, caller) }
	case "(*github.com/deckarep/golang-set.threadUnsafeSet).Iter":
		return func() Val { return m.setIter(args[0]) }
	case "(*github.com/deckarep/golang-set.threadSafeSet).Iter":
		return func() Val {
			p := args[0].(Ptr)
			if p.C == nil {
				m.rtPanic("nil pointer dereference")
			}
			inner := p.C.V.(*StructV).F[0]
			return m.setIter(Ptr{inner})
		}
	case "reflect.TypeOf":
		return func() Val {
			i := args[0].(Iface)
			return Iface{T: reflectTypeMarker, V: i}
		}
	case "fmt.Sprintf", "fmt.Errorf":
		return func() Val {
			s := m.format(args[0], args[1].(SliceV))
			if name == "fmt.Errorf" {
				return m.makeErrorStr(s)
			}
			return s
		}
	case "fmt.Sprint", "fmt.Sprintln":
		return func() Val { return m.formatPlain(args[0].(SliceV), name == "fmt.Sprintln") }
	case "fmt.Printf":
		return func() Val {
			s := m.format(args[0], args[1].(SliceV))
			m.output("stdout fmt.Printf", s, args[1].(SliceV))
			return TupleV{bv64(s.Len()), Iface{}}
		}
	case "fmt.Println", "fmt.Print":
		return func() Val {
			s := m.formatPlain(args[0].(SliceV), name == "fmt.Println")
			m.output("stdout "+name, s, args[0].(SliceV))
			return TupleV{bv64(s.Len()), Iface{}}
		}
	case "fmt.Fprintf":
		return func() Val {
			s := m.format(args[1], args[2].(SliceV))
			if wn := m.writerName(args[0]); wn != "writer" {
				m.output(wn+" fmt.Fprintf", s, args[2].(SliceV))
			} else {
				m.writeTo(args[0].(Iface), s, caller)
			}
			return TupleV{bv64(s.Len()), Iface{}}
		}
	case "fmt.Fprintln", "fmt.Fprint":
		return func() Val {
			s := m.formatPlain(args[1].(SliceV), name == "fmt.Fprintln")
			if wn := m.writerName(args[0]); wn != "writer" {
				m.output(wn+" "+name, s, args[1].(SliceV))
			} else {
				m.writeTo(args[0].(Iface), s, caller)
			}
			return TupleV{bv64(s.Len()), Iface{}}
		}
	case "log.Println", "log.Print":
		return func() Val {
			s := m.formatPlain(args[0].(SliceV), true)
			m.output("log "+name, s, args[0].(SliceV))
			return nil
		}
	case "log.Printf":
		return func() Val {
			s := m.format(args[0], args[1].(SliceV))
			m.output("log log.Printf", s, args[1].(SliceV))
			return nil
		}
	case "log.Fatalln", "log.Fatal", "log.Fatalf", "log.Panicln", "log.Panic", "log.Panicf":
		return func() Val {
			var s *StrV
			var sl SliceV
			if strings.HasSuffix(name, "f") {
				s, sl = m.format(args[0], args[1].(SliceV)), args[1].(SliceV)
			} else {
				s, sl = m.formatPlain(args[0].(SliceV), true), args[0].(SliceV)
			}
			m.output("log "+name, s, sl)
			if strings.Contains(name, "Fatal") {
				m.outputs = append(m.outputs, OutEvent{Sink: "exit", Text: "1"})
				panic(&abortPath{"exit", "1"})
			}
			panic(&goPanic{v: Iface{T: types.Typ[types.String], V: s}, msg: "log.Panic"})
		}
	case "os.Exit":
		return func() Val {
			c := args[0].(*Term)
			m.outputs = append(m.outputs, OutEvent{Sink: "exit", Text: fmt.Sprint(c.S())})
			panic(&abortPath{"exit", fmt.Sprint(c.S())})
		}
	case "(*os.File).Write", "(*os.File).WriteString":
		return func() Val {
			ev := OutEvent{Sink: m.writerName(Iface{T: types.Typ[types.Int], V: args[0]}) + " " + name, Tainted: valTainted(args[1], 0)}
			if s, ok := args[1].(*StrV); ok {
				ev.Str = s
				if s.Conc() {
					ev.Text = s.S
				}
			}
			if sl, ok := args[1].(SliceV); ok {
				bs := make([]*Term, sl.Len)
				okb := true
				for i := range bs {
					t, isT := sl.A.E[sl.Off+i].V.(*Term)
					if !isT {
						okb = false
						break
					}
					bs[i] = t
				}
				if okb {
					ev.Str = strFromBytes(bs, ev.Tainted)
					if ev.Str.Conc() {
						ev.Text = ev.Str.S
					}
				}
			}
			m.outputs = append(m.outputs, ev)
			return TupleV{bv64(0), Iface{}}
		}
	case "math.Log2", "math.Exp2", "math.Log", "math.Exp", "math.Sqrt", "math.Floor", "math.Ceil", "math.Abs", "math.Log10", "math.Log1p", "math.Trunc", "math.Round":
		return func() Val {
			x := args[0].(FloatV).F
			var r float64
			switch name {
			case "math.Log2":
				r = math.Log2(x)
			case "math.Exp2":
				r = math.Exp2(x)
			case "math.Log":
				r = math.Log(x)
			case "math.Exp":
				r = math.Exp(x)
			case "math.Sqrt":
				r = math.Sqrt(x)
			case "math.Floor":
				r = math.Floor(x)
			case "math.Ceil":
				r = math.Ceil(x)
			case "math.Abs":
				r = math.Abs(x)
			case "math.Log10":
				r = math.Log10(x)
			case "math.Log1p":
				r = math.Log1p(x)
			case "math.Trunc":
				r = math.Trunc(x)
			case "math.Round":
				r = math.Round(x)
			}
			return FloatV{r, 64}
		}
	case "math.Max":
		return func() Val { return FloatV{math.Max(args[0].(FloatV).F, args[1].(FloatV).F), 64} }
	case "math.Min":
		return func() Val { return FloatV{math.Min(args[0].(FloatV).F, args[1].(FloatV).F), 64} }
	case "math.Pow":
		return func() Val { return FloatV{math.Pow(args[0].(FloatV).F, args[1].(FloatV).F), 64} }
	case "math.IsNaN":
		return func() Val { return Bool(math.IsNaN(args[0].(FloatV).F)) }
	case "math.IsInf":
		return func() Val {
			return Bool(math.IsInf(args[0].(FloatV).F, int(args[1].(*Term).S())))
		}
	case "math.Inf":
		return func() Val { return FloatV{math.Inf(int(args[0].(*Term).S())), 64} }
	case "math.NaN":
		return func() Val { return FloatV{math.NaN(), 64} }
	case "math.Float32bits":
		return func() Val { return BV(32, uint64(math.Float32bits(float32(args[0].(FloatV).F)))) }
	case "math.Float64bits":
		return func() Val { return BV(64, math.Float64bits(args[0].(FloatV).F)) }
	case "math.Float32frombits":
		return func() Val {
			c := m.concreteValue(args[0].(*Term), "Float32frombits")
			return FloatV{float64(math.Float32frombits(uint32(c))), 32}
		}
	case "math.Float64frombits":
		return func() Val {
			c := m.concreteValue(args[0].(*Term), "Float64frombits")
			return FloatV{math.Float64frombits(c), 64}
		}
	case "math/big.NewInt":
		return func() Val {
			c := m.concreteValue(args[0].(*Term), "big.NewInt")
			p := m.newBigInt()
			m.big.ints[p.C] = big.NewInt(int64(c))
			return p
		}
	case "math/big.NewFloat":
		return func() Val {
			p := m.newBigFloat()
			m.big.floats[p.C] = big.NewFloat(args[0].(FloatV).F)
			return p
		}
	case "(*math/big.Int).Exp":
		return func() Val {
			var mod *big.Int
			if mp := args[3].(Ptr); mp.C != nil {
				mod = bigOf(m, mp)
			}
			y := bigOf(m, args[2])
			if y.BitLen() > 20 {
				m.unmodelled("big.Int.Exp with a huge exponent")
			}
			bigOf(m, args[0]).Exp(bigOf(m, args[1]), y, mod)
			m.noteBigWrite(args[0])
			return args[0]
		}
	case "(*math/big.Int).Sub", "(*math/big.Int).Add", "(*math/big.Int).Mul", "(*math/big.Int).Div", "(*math/big.Int).Mod", "(*math/big.Int).Quo", "(*math/big.Int).Rem":
		return func() Val {
			z, x, y := bigOf(m, args[0]), bigOf(m, args[1]), bigOf(m, args[2])
			switch fn.Name() {
			case "Sub":
				z.Sub(x, y)
			case "Add":
				z.Add(x, y)
			case "Mul":
				z.Mul(x, y)
			case "Div", "Mod", "Quo", "Rem":
				if y.Sign() == 0 {
					m.rtPanic("division by zero")
				}
				switch fn.Name() {
				case "Div":
					z.Div(x, y)
				case "Mod":
					z.Mod(x, y)
				case "Quo":
					z.Quo(x, y)
				case "Rem":
					z.Rem(x, y)
				}
			}
			m.noteBigWrite(args[0])
			return args[0]
		}
	case "(*math/big.Int).Neg", "(*math/big.Int).Set", "(*math/big.Int).Abs":
		return func() Val {
			z, x := bigOf(m, args[0]), bigOf(m, args[1])
			switch fn.Name() {
			case "Neg":
				z.Neg(x)
			case "Set":
				z.Set(x)
			case "Abs":
				z.Abs(x)
			}
			m.noteBigWrite(args[0])
			return args[0]
		}
	case "(*math/big.Int).SetUint64":
		return func() Val {
			c := m.concreteValue(args[1].(*Term), "big.SetUint64")
			bigOf(m, args[0]).SetUint64(c)
			m.noteBigWrite(args[0])
			return args[0]
		}
	case "(*math/big.Int).IsUint64":
		return func() Val { return Bool(bigOf(m, args[0]).IsUint64()) }
	case "(*math/big.Int).SetInt64":
		return func() Val {
			c := m.concreteValue(args[1].(*Term), "big.SetInt64")
			bigOf(m, args[0]).SetInt64(int64(c))
			m.noteBigWrite(args[0])
			return args[0]
		}
	case "(*math/big.Int).Rsh":
		return func() Val {
			c := m.concreteValue(args[2].(*Term), "big.Rsh")
			bigOf(m, args[0]).Rsh(bigOf(m, args[1]), uint(c))
			m.noteBigWrite(args[0])
			return args[0]
		}
	case "(*math/big.Int).Uint64":
		return func() Val { return BV(64, bigOf(m, args[0]).Uint64()) }
	case "(*math/big.Int).Lsh":
		return func() Val {
			c := m.concreteValue(args[2].(*Term), "big.Lsh")
			bigOf(m, args[0]).Lsh(bigOf(m, args[1]), uint(c))
			m.noteBigWrite(args[0])
			return args[0]
		}
	case "(*math/big.Int).Cmp":
		return func() Val { return BV(64, uint64(int64(bigOf(m, args[0]).Cmp(bigOf(m, args[1]))))) }
	case "(*math/big.Int).Sign":
		return func() Val { return BV(64, uint64(int64(bigOf(m, args[0]).Sign()))) }
	case "(*math/big.Int).BitLen":
		return func() Val { return BV(64, uint64(bigOf(m, args[0]).BitLen())) }
	case "(*math/big.Int).Int64":
		return func() Val { return BV(64, uint64(bigOf(m, args[0]).Int64())) }
	case "(*math/big.Int).IsInt64":
		return func() Val { return Bool(bigOf(m, args[0]).IsInt64()) }
	case "(*math/big.Int).String":
		return func() Val { return mkStr(bigOf(m, args[0]).String()) }
	case "(*math/big.Float).SetInt":
		return func() Val {
			bigFloatOf(m, args[0]).SetInt(bigOf(m, args[1]))
			m.noteBigWrite(args[0])
			return args[0]
		}
	case "(*math/big.Float).MantExp":
		return func() Val {
			var mant *big.Float
			if mp := args[1].(Ptr); mp.C != nil {
				mant = bigFloatOf(m, mp)
				m.noteBigWrite(args[1])
			}
			e := bigFloatOf(m, args[0]).MantExp(mant)
			return BV(64, uint64(int64(e)))
		}
	case "(*math/big.Float).Float64":
		return func() Val {
			f, acc := bigFloatOf(m, args[0]).Float64()
			return TupleV{FloatV{f, 64}, BV(8, uint64(uint8(int8(acc))))}
		}
	case "sort.Strings":
		return func() Val {
			ss, ok := m.strSliceToNative(args[0])
			if !ok {
				// symbolic elements: insertion sort, every comparison a
				// solver-decided branch (the order is concrete on each path)
				s := args[0].(SliceV)
				nsym := 0
				for i := 0; i < s.Len; i++ {
					if !s.A.E[s.Off+i].V.(*StrV).Conc() {
						nsym++
					}
				}
				if nsym > 6 || s.Len > 100 {
					m.unmodelled("sort.Strings on more than 6 symbolic strings")
				}
				elems := make([]*StrV, s.Len)
				for i := range elems {
					elems[i] = s.A.E[s.Off+i].V.(*StrV)
				}
				for i := 1; i < len(elems); i++ {
					for j := i; j > 0; j-- {
						if m.branch(m.strCmp(token.LSS, elems[j], elems[j-1]), "sort.Strings comparison") {
							elems[j], elems[j-1] = elems[j-1], elems[j]
						} else {
							break
						}
					}
				}
				for i, e := range elems {
					m.storeCell(s.A.E[s.Off+i], e, "sort.Strings")
				}
				return nil
			}
			taint := m.strSliceTaint(args[0])
			sort.Strings(ss)
			s := args[0].(SliceV)
			for i, e := range ss {
				m.storeCell(s.A.E[s.Off+i], &StrV{S: e, T: taint}, "sort.Strings")
			}
			return nil
		}
	case "sort.Slice", "sort.SliceStable":
		// the real implementations swap through reflection; here: a stable
		// insertion sort that calls the less closure (each symbolic answer
		// is a solver-decided branch) and swaps the cells in place. The
		// result is a sorted permutation; for elements the order does not
		// separate it need not be the permutation pdqsort would produce.
		return func() Val {
			i0, ok := args[0].(Iface)
			if !ok {
				m.unmodelled("sort.Slice on a non-slice")
			}
			s, ok := i0.V.(SliceV)
			if !ok {
				m.unmodelled("sort.Slice on a non-slice")
			}
			if s.Len > 400 {
				m.unmodelled("sort.Slice on more than 400 elements")
			}
			less := args[1]
			for i := 1; i < s.Len; i++ {
				for j := i; j > 0; j-- {
					r := m.callValue(less, []Val{BV(64, uint64(j)), BV(64, uint64(j-1))}, caller, nil).(*Term)
					if !m.branch(r, "sort.Slice comparison") {
						break
					}
					a, b := s.A.E[s.Off+j], s.A.E[s.Off+j-1]
					av, bv := copyVal(a.V, nil), copyVal(b.V, nil)
					m.storeCell(a, bv, "sort.Slice")
					m.storeCell(b, av, "sort.Slice")
				}
			}
			return nil
		}
	case "sort.Ints":
		return func() Val {
			s := args[0].(SliceV)
			xs := make([]int, s.Len)
			for i := range xs {
				t := s.A.E[s.Off+i].V.(*Term)
				if !t.IsConst() {
					m.unmodelled("sort.Ints on symbolic ints")
				}
				xs[i] = int(t.S())
			}
			sort.Ints(xs)
			for i, e := range xs {
				m.storeCell(s.A.E[s.Off+i], BV(64, uint64(int64(e))), "sort.Ints")
			}
			return nil
		}
	}
	if strings.HasPrefix(name, "sync/atomic.") {
		if h := m.atomicIntercept(fn.Name(), args); h != nil {
			return h
		}
	}
	if strings.HasPrefix(name, "unicode.") {
		if h := m.unicodeIntercept(name, args); h != nil {
			return h
		}
	}
	if strings.HasPrefix(name, "strings.") || strings.HasPrefix(name, "unicode/utf8.") || strings.HasPrefix(name, "unicode.") || strings.HasPrefix(name, "strconv.") {
		if h := m.stringIntercept(fn, name, args); h != nil {
			return h
		}
	}
	if strings.HasPrefix(name, "(*math/big.") || strings.HasPrefix(name, "(math/big.") {
		// big numbers live in a side table: a method without a model must not
		// run from its SSA on the placeholder struct
		return func() Val { m.unmodelled("math/big method without a model: %s", name); return nil }
	}
	return nil
}

var reflectTypeMarker = types.NewNamed(types.NewTypeName(0, nil, "reflectTypeMarker", nil), types.NewStruct(nil, nil), nil)

func (m *Machine) noteBigWrite(p Val) {
	if c := p.(Ptr).C; c != nil && c.O != nil {
		m.noteWrite(c.O, "math/big write")
	}
}

func (m *Machine) newBigInt() Ptr {
	o := m.newObj("big.Int")
	bp := m.prog.pkgs["math/big"]
	t := bp.Members["Int"].(*ssa.Type).Type()
	return Ptr{&Cell{V: zero(t, o), O: o}}
}

func (m *Machine) newBigFloat() Ptr {
	o := m.newObj("big.Float")
	bp := m.prog.pkgs["math/big"]
	t := bp.Members["Float"].(*ssa.Type).Type()
	return Ptr{&Cell{V: zero(t, o), O: o}}
}

// setIter models Set.Iter(): a closed channel pre-filled with the elements in
// map-range order.
func (m *Machine) setIter(p Val) Val {
	ptr := p.(Ptr)
	if ptr.C == nil {
		m.rtPanic("nil pointer dereference")
	}
	mo := ptr.C.V.(*MapObj)
	ch := &ChanObj{closed: true}
	if mo == nil {
		return ch
	}
	it := m.rangeStart(&frame{fn: nil}, mo).(*mapIter)
	for {
		rem := 0
		for _, e := range it.ents[it.pos:] {
			if !e.deleted {
				rem++
			}
		}
		if rem == 0 {
			break
		}
		k := 0
		if it.perm && rem > 1 {
			k = m.chooseN(rem, "set iteration order")
		}
		it.ents[it.pos], it.ents[it.pos+k] = it.ents[it.pos+k], it.ents[it.pos]
		ch.q = append(ch.q, it.ents[it.pos].K)
		it.pos++
	}
	return ch
}

// ---- random source ----

func (m *Machine) randRead(b SliceV, full bool) Val {
	idx := m.reads
	m.reads++
	n := b.Len
	if m.fault != nil && m.fault.read == idx {
		m.faultHit = true
		k := m.fault.n
		if k > n {
			k = n
		}
		for i := 0; i < k; i++ {
			t := m.freshTapeByte()
			m.storeCell(b.A.E[b.Off+i], t, "rand.Read")
		}
		m.readLens = append(m.readLens, k)
		return TupleV{bv64(k), m.makeError("injected random source failure")}
	}
	if !full && m.shortReads && n > 1 && !m.shortTaken {
		// a bare Reader.Read may legally return fewer bytes with a nil error
		// (at most one short read per path: enough to expose a caller that
		// ignores the count, without 4^reads paths)
		k := 1 + m.chooseN(n, "short read length")
		if k < n {
			m.shortTaken = true
		}
		for i := 0; i < k; i++ {
			m.storeCell(b.A.E[b.Off+i], m.freshTapeByte(), "rand.Read")
		}
		if k < n {
			m.res.Notes["short-read"] = "taken"
		}
		m.readLens = append(m.readLens, k)
		return TupleV{bv64(k), Iface{}}
	}
	m.readLens = append(m.readLens, n)
	for i := 0; i < n; i++ {
		m.storeCell(b.A.E[b.Off+i], m.freshTapeByte(), "rand.Read")
	}
	return TupleV{bv64(n), Iface{}}
}

func (m *Machine) freshTapeByte() *Term {
	if m.rewound {
		// second pass over the same stream
		if m.tapePos < len(m.tape) {
			t := m.tape[m.tapePos]
			m.tapePos++
			return t
		}
		m.tapePos++
	}
	if len(m.script) > 0 {
		// vTapeScript: the harness fixed the next source bytes (probe words)
		t := BV(8, uint64(m.script[0]))
		m.script = m.script[1:]
		m.tape = append(m.tape, t)
		return t
	}
	t := Var(fmt.Sprintf("tape%d", len(m.tape)), 8)
	m.tape = append(m.tape, t)
	return t
}

// drawSummary is the verified summary of randomUint32n (DESIGN §3.5).
func (m *Machine) drawSummary(n *Term) Val {
	if m.branch(Eq(n, BV(32, 0)), "draw bound zero") {
		panic(&goPanic{v: Iface{T: types.Typ[types.String], V: mkStr("randomUint32n called with 0")}, msg: "randomUint32n called with 0"})
	}
	if m.replayIdx >= 0 && m.replayIdx < len(m.draws) && m.replayIdx < m.replayEnd {
		// second run on the same draws (vReplayDraws): reuse the recorded value
		old := m.draws[m.replayIdx]
		m.replayIdx++
		m.draws = append(m.draws, drawRec{N: n, D: old.D})
		m.reads++
		m.assume(Cmp("bvult", old.D, n))
		return old.D
	}
	if m.drawLimit > 0 && len(m.draws) >= m.drawLimit {
		msg := m.drawLimitMsg
		m.drawLimit = 0
		m.assert(tFalse, msg)
	}
	if m.coinMode > 0 && n.IsConst() && n.C == 2 {
		// vCoinScript: fair coins take the scripted concrete values, except
		// the one the harness leaves symbolic (long coin sequences would fork
		// 2^Length ways otherwise; the harness states which vectors it runs)
		k := m.coinSeen
		m.coinSeen++
		if k != m.coinFree {
			v := uint64(0)
			switch m.coinMode {
			case 1:
				v = 1
			case 3:
				v = uint64(1 - k%2)
			}
			c := BV(32, v)
			m.draws = append(m.draws, drawRec{N: n, D: c})
			for i := 3; i >= 0; i-- {
				m.tape = append(m.tape, Extract(c, 8*i+7, 8*i))
			}
			m.reads++
			m.readLens = append(m.readLens, 4)
			return c
		}
	}
	d := Var(fmt.Sprintf("draw%d", len(m.draws)), 32)
	m.draws = append(m.draws, drawRec{N: n, D: d})
	// the tape that realises this draw: the accepted word is d itself
	for i := 3; i >= 0; i-- {
		m.tape = append(m.tape, Extract(d, 8*i+7, 8*i))
	}
	m.reads++
	m.readLens = append(m.readLens, 4)
	if n.IsConst() && n.C <= 256 {
		if m.varBound == nil {
			m.varBound = map[string]int{}
		}
		m.varBound[d.Name] = int(n.C)
	}
	m.assume(Cmp("bvult", d, n))
	return d
}

// ---- formatting and output ----

func (m *Machine) nativeArg(i Iface) (interface{}, bool, bool) {
	// returns native value, concrete?, tainted?
	if i.T == nil {
		return nil, true, false
	}
	taint := valTainted(i.V, 0)
	// Stringer / error take precedence, as in fmt
	for _, meth := range []string{"Error", "String"} {
		if f := m.prog.lookupMethodByName(i.T, meth); f != nil && f.Signature.Params().Len() == 0 && f.Signature.Results().Len() == 1 && isString(f.Signature.Results().At(0).Type()) {
			if p, ok := i.V.(Ptr); ok && p.C == nil {
				return "<nil>", true, false
			}
			r := m.callFn(f, []Val{i.V}, nil, nil, nil).(*StrV)
			if r.Conc() {
				return r.S, true, taint || r.Tainted()
			}
			return nil, false, true
		}
	}
	switch v := i.V.(type) {
	case *Term:
		if !v.IsConst() {
			return nil, false, taint
		}
		if v.W == 0 {
			return v.C == 1, true, taint
		}
		w, signed, _ := intWidth(i.T)
		switch {
		case signed && w == 64:
			return int(v.S()), true, taint
		case signed && w == 32:
			return int32(v.S()), true, taint
		case signed && w == 16:
			return int16(v.S()), true, taint
		case signed && w == 8:
			return int8(v.S()), true, taint
		case w == 64:
			return uint64(v.C), true, taint
		case w == 32:
			return uint32(v.C), true, taint
		case w == 16:
			return uint16(v.C), true, taint
		default:
			return uint8(v.C), true, taint
		}
	case FloatV:
		if v.W == 32 {
			return float32(v.F), true, taint
		}
		return v.F, true, taint
	case *StrV:
		if v.Conc() {
			return v.S, true, taint
		}
		return nil, false, taint
	case Iface:
		return m.nativeArg(v)
	case SliceV:
		// slices of strings / integers print like their native counterparts
		if v.Len == 0 {
			if v.A == nil {
				return []string(nil), true, taint
			}
			return []string{}, true, taint
		}
		switch v.A.E[v.Off].V.(type) {
		case *StrV:
			out := make([]string, v.Len)
			for k := range out {
				s := v.A.E[v.Off+k].V.(*StrV)
				if !s.Conc() {
					return nil, false, taint
				}
				out[k] = s.S
			}
			return out, true, taint
		case *Term:
			out := make([]uint64, v.Len)
			for k := range out {
				t := v.A.E[v.Off+k].V.(*Term)
				if !t.IsConst() {
					return nil, false, taint
				}
				out[k] = t.C
			}
			return out, true, taint
		}
	}
	return showVal(i.V), !taint, taint
}

func (m *Machine) format(f Val, args SliceV) *StrV {
	fs, ok := conc(f)
	if !ok {
		// a symbolic string used as the format: without a '%' it prints as
		// itself; the path forks on whether any of its bytes is one
		if fsv, isStr := f.(*StrV); isStr && args.Len == 0 {
			any := tFalse
			for _, b := range fsv.Bytes() {
				any = Or(any, Eq(b, BV(8, '%')))
			}
			if !m.branch(any, "symbolic format string contains a verb") {
				return fsv
			}
			return &StrV{S: "<symbolic format string with a verb>", T: true}
		}
		return &StrV{S: "<symbolic format>", T: true}
	}
	nat := make([]interface{}, args.Len)
	taint := false
	allc := true
	for i := 0; i < args.Len; i++ {
		v, c, t := m.nativeArg(args.A.E[args.Off+i].V.(Iface))
		nat[i] = v
		taint = taint || t
		allc = allc && c
	}
	if allc {
		return &StrV{S: fmt.Sprintf(fs, nat...), T: taint}
	}
	// some operand is symbolic: splice verb by verb (plain %s %v %q %d on
	// strings and concrete operands; anything fancier gives an opaque message)
	out := &StrV{}
	argi := 0
	i := 0
	for i < len(fs) {
		j := strings.IndexByte(fs[i:], '%')
		if j < 0 {
			out = strConcat(out, mkStr(fs[i:]))
			break
		}
		out = strConcat(out, mkStr(fs[i:i+j]))
		i += j
		// parse the verb
		k := i + 1
		for k < len(fs) && strings.IndexByte("+-# 0123456789.", fs[k]) >= 0 {
			k++
		}
		if k >= len(fs) {
			return &StrV{S: "<message with symbolic arguments: " + fs + ">", T: taint}
		}
		verb := fs[i : k+1]
		i = k + 1
		if verb == "%%" {
			out = strConcat(out, mkStr("%"))
			continue
		}
		if argi >= args.Len {
			out = strConcat(out, mkStr("%!"+verb[len(verb)-1:]+"(MISSING)"))
			continue
		}
		a := args.A.E[args.Off+argi].V.(Iface)
		v, c, _ := m.nativeArg(a)
		argi++
		if c {
			out = strConcat(out, mkStr(fmt.Sprintf(verb, v)))
			continue
		}
		sym := m.symbolicStringArg(a)
		if sym == nil {
			return &StrV{S: "<message with symbolic arguments: " + fs + ">", T: taint}
		}
		switch verb {
		case "%s", "%v":
			out = strConcat(out, sym)
		case "%q":
			// approximation: quoting without escapes (exact for strings
			// without quotes, backslashes and non-printable bytes)
			out = strConcat(strConcat(strConcat(out, mkStr("\"")), sym), mkStr("\""))
		default:
			return &StrV{S: "<message with symbolic arguments: " + fs + ">", T: taint}
		}
	}
	out.T = out.T || taint
	return out
}

func (m *Machine) formatPlain(args SliceV, ln bool) *StrV {
	nat := make([]interface{}, args.Len)
	taint := false
	allc := true
	for i := 0; i < args.Len; i++ {
		v, c, t := m.nativeArg(args.A.E[args.Off+i].V.(Iface))
		nat[i] = v
		taint = taint || t
		allc = allc && c
	}
	if !allc {
		// symbolic string operands: Println joins its operands with blanks
		if ln {
			out := &StrV{}
			ok := true
			for i := 0; i < args.Len; i++ {
				var piece *StrV
				if s := m.symbolicStringArg(args.A.E[args.Off+i].V.(Iface)); s != nil {
					piece = s
				} else if v, c, _ := m.nativeArg(args.A.E[args.Off+i].V.(Iface)); c {
					piece = mkStr(fmt.Sprint(v))
				} else {
					ok = false
					break
				}
				if i > 0 {
					out = strConcat(out, mkStr(" "))
				}
				out = strConcat(out, piece)
			}
			if ok {
				out = strConcat(out, mkStr("\n"))
				out.T = out.T || taint
				return out
			}
		}
		return &StrV{S: "<message with symbolic arguments>", T: taint}
	}
	if ln {
		return &StrV{S: fmt.Sprintln(nat...), T: taint}
	}
	return &StrV{S: fmt.Sprint(nat...), T: taint}
}

// symbolicStringArg returns the string an operand prints as when it is a
// string (or has a String/Error method) with symbolic content.
func (m *Machine) symbolicStringArg(i Iface) *StrV {
	if i.T == nil {
		return nil
	}
	for _, meth := range []string{"Error", "String"} {
		if f := m.prog.lookupMethodByName(i.T, meth); f != nil && f.Signature.Params().Len() == 0 && f.Signature.Results().Len() == 1 && isString(f.Signature.Results().At(0).Type()) {
			if p, ok := i.V.(Ptr); ok && p.C == nil {
				return nil
			}
			return m.callFn(f, []Val{i.V}, nil, nil, nil).(*StrV)
		}
	}
	if s, ok := i.V.(*StrV); ok {
		return s
	}
	if inner, ok := i.V.(Iface); ok {
		return m.symbolicStringArg(inner)
	}
	return nil
}

// writeTo hands formatted text to an io.Writer that is not a standard stream by
// calling its Write method (e.g. a bytes.Buffer executed from its SSA).
func (m *Machine) writeTo(w Iface, s *StrV, caller *frame) {
	if w.T == nil {
		m.rtPanic("write to nil io.Writer")
	}
	f := m.prog.lookupMethodByName(w.T, "Write")
	if f == nil {
		m.outputs = append(m.outputs, OutEvent{Sink: "writer " + typeName(w.T), Tainted: s.Tainted(), Str: s})
		return
	}
	bs := s.Bytes()
	o := m.newObj("formatted bytes")
	a := &ArrObj{E: make([]*Cell, len(bs)), O: o}
	for i, b := range bs {
		a.E[i] = &Cell{V: b, O: o}
	}
	sl := SliceV{A: a, Len: len(bs), Cap: len(bs)}
	if s.T {
		m.taintedSlices = append(m.taintedSlices, a)
	}
	m.callFn(f, []Val{w.V, sl}, nil, caller, nil)
}

// writerName classifies an io.Writer argument: stdout, stderr or another writer.
func (m *Machine) writerName(w Val) string {
	if i, ok := w.(Iface); ok {
		if p, ok := i.V.(Ptr); ok && p.C != nil {
			switch p.C {
			case m.stdoutCell:
				return "stdout"
			case m.stderrCell:
				return "stderr"
			}
		}
	}
	return "writer"
}

func (m *Machine) output(sink string, s *StrV, args SliceV) {
	ev := OutEvent{Sink: sink, Tainted: s.Tainted(), Str: s}
	if s.Conc() {
		ev.Text = s.S
	}
	m.outputs = append(m.outputs, ev)
}

// ---- strings / utf8 fast paths and symbolic models ----

func (m *Machine) stringIntercept(fn *ssa.Function, name string, args []Val) handler {
	allConc := true
	for _, a := range args {
		switch x := a.(type) {
		case *StrV:
			if !x.Conc() {
				allConc = false
			}
		case *Term:
			if !x.IsConst() {
				allConc = false
			}
		case SliceV:
			for i := 0; i < x.Len; i++ {
				if s, ok := x.A.E[x.Off+i].V.(*StrV); ok {
					if !s.Conc() {
						allConc = false
					}
				} else {
					return nil
				}
			}
		default:
			return nil
		}
	}
	taint := false
	for _, a := range args {
		if valTainted(a, 0) {
			taint = true
		}
	}
	S := func(i int) string { return args[i].(*StrV).S }
	I := func(i int) int { return int(args[i].(*Term).S()) }
	str := func(s string) Val { return &StrV{S: s, T: taint} }
	if allConc {
		switch name {
		case "strings.Split":
			return func() Val { return m.nativeStrSlice(strings.Split(S(0), S(1)), taint) }
		case "strings.SplitN":
			return func() Val { return m.nativeStrSlice(strings.SplitN(S(0), S(1), I(2)), taint) }
		case "strings.Fields":
			return func() Val { return m.nativeStrSlice(strings.Fields(S(0)), taint) }
		case "strings.Join":
			return func() Val {
				ss, _ := m.strSliceToNative(args[0])
				return &StrV{S: strings.Join(ss, S(1)), T: taint || m.strSliceTaint(args[0])}
			}
		case "strings.Contains":
			return func() Val { return Bool(strings.Contains(S(0), S(1))) }
		case "strings.ContainsAny":
			return func() Val { return Bool(strings.ContainsAny(S(0), S(1))) }
		case "strings.ContainsRune":
			return func() Val { return Bool(strings.ContainsRune(S(0), rune(I(1)))) }
		case "strings.HasPrefix":
			return func() Val { return Bool(strings.HasPrefix(S(0), S(1))) }
		case "strings.HasSuffix":
			return func() Val { return Bool(strings.HasSuffix(S(0), S(1))) }
		case "strings.Index":
			return func() Val { return bv64(strings.Index(S(0), S(1))) }
		case "strings.IndexByte":
			return func() Val { return bv64(strings.IndexByte(S(0), byte(I(1)))) }
		case "strings.IndexRune":
			return func() Val { return bv64(strings.IndexRune(S(0), rune(I(1)))) }
		case "strings.IndexAny":
			return func() Val { return bv64(strings.IndexAny(S(0), S(1))) }
		case "strings.Count":
			return func() Val { return bv64(strings.Count(S(0), S(1))) }
		case "strings.Replace":
			return func() Val { return str(strings.Replace(S(0), S(1), S(2), I(3))) }
		case "strings.ReplaceAll":
			return func() Val { return str(strings.ReplaceAll(S(0), S(1), S(2))) }
		case "strings.Title":
			return func() Val { return str(strings.Title(S(0))) }
		case "strings.ToUpper":
			return func() Val { return str(strings.ToUpper(S(0))) }
		case "strings.ToLower":
			return func() Val { return str(strings.ToLower(S(0))) }
		case "strings.ToTitle":
			return func() Val { return str(strings.ToTitle(S(0))) }
		case "strings.TrimSpace":
			return func() Val { return str(strings.TrimSpace(S(0))) }
		case "strings.Trim":
			return func() Val { return str(strings.Trim(S(0), S(1))) }
		case "strings.TrimLeft":
			return func() Val { return str(strings.TrimLeft(S(0), S(1))) }
		case "strings.TrimRight":
			return func() Val { return str(strings.TrimRight(S(0), S(1))) }
		case "strings.TrimPrefix":
			return func() Val { return str(strings.TrimPrefix(S(0), S(1))) }
		case "strings.TrimSuffix":
			return func() Val { return str(strings.TrimSuffix(S(0), S(1))) }
		case "strings.Repeat":
			return func() Val { return str(strings.Repeat(S(0), I(1))) }
		case "strings.EqualFold":
			return func() Val { return Bool(strings.EqualFold(S(0), S(1))) }
		case "strings.Compare":
			return func() Val { return bv64(strings.Compare(S(0), S(1))) }
		case "unicode/utf8.RuneCountInString":
			return func() Val { return bv64(utf8.RuneCountInString(S(0))) }
		case "unicode/utf8.ValidString":
			return func() Val { return Bool(utf8.ValidString(S(0))) }
		case "unicode/utf8.DecodeRuneInString":
			return func() Val {
				r, n := utf8.DecodeRuneInString(S(0))
				return TupleV{BV(32, uint64(uint32(r))), bv64(n)}
			}
		case "unicode/utf8.DecodeLastRuneInString":
			return func() Val {
				r, n := utf8.DecodeLastRuneInString(S(0))
				return TupleV{BV(32, uint64(uint32(r))), bv64(n)}
			}
		case "unicode/utf8.RuneLen":
			return func() Val { return bv64(utf8.RuneLen(rune(I(0)))) }
		case "strconv.ParseFloat":
			return func() Val {
				f, err := strconv.ParseFloat(S(0), I(1))
				if err != nil {
					return TupleV{FloatV{0, 64}, m.makeError(err.Error())}
				}
				return TupleV{FloatV{f, 64}, Iface{}}
			}
		case "strconv.Atoi":
			return func() Val {
				n, err := strconv.Atoi(S(0))
				if err != nil {
					return TupleV{bv64(0), m.makeError(err.Error())}
				}
				return TupleV{bv64(n), Iface{}}
			}
		case "strconv.Itoa":
			return func() Val { return str(fmt.Sprint(I(0))) }
		}
		return nil
	}
	// symbolic models
	switch name {
	case "strings.Join":
		return func() Val {
			s := args[0].(SliceV)
			sep := args[1].(*StrV)
			out := &StrV{}
			for i := 0; i < s.Len; i++ {
				if i > 0 {
					out = strConcat(out, sep)
				}
				out = strConcat(out, s.A.E[s.Off+i].V.(*StrV))
			}
			return out
		}
	case "strings.ContainsAny":
		return func() Val { return m.containsAnySym(args[0].(*StrV), args[1].(*StrV)) }
	case "strings.Contains":
		return func() Val {
			s, sub := args[0].(*StrV), args[1].(*StrV)
			return containsAt(s, sub)
		}
	case "strings.HasPrefix":
		return func() Val {
			s, p := args[0].(*StrV), args[1].(*StrV)
			if p.Len() > s.Len() {
				return tFalse
			}
			return strEq(strSlice(s, 0, p.Len()), p)
		}
	case "strings.Title":
		return func() Val {
			if s := args[0].(*StrV); s.P != nil {
				return m.mapPick(s, strings.Title)
			}
			return m.titleSym(args[0].(*StrV))
		}
	case "strings.ToUpper":
		if s := args[0].(*StrV); s.P != nil {
			return func() Val { return m.mapPick(s, strings.ToUpper) }
		}
		return func() Val { return m.caseSym(args[0].(*StrV), true) }
	case "strings.ToLower":
		if s := args[0].(*StrV); s.P != nil {
			return func() Val { return m.mapPick(s, strings.ToLower) }
		}
		return func() Val { return m.caseSym(args[0].(*StrV), false) }
	case "strings.ToTitle":
		if s := args[0].(*StrV); s.P != nil {
			return func() Val { return m.mapPick(s, strings.ToTitle) }
		}
	}
	return nil
}

func containsAt(s, sub *StrV) *Term {
	r := tFalse
	for p := 0; p+sub.Len() <= s.Len(); p++ {
		r = Or(r, strEq(strSlice(s, p, p+sub.Len()), sub))
	}
	return r
}

// containsAnySym: s contains any character of chars. For valid UTF-8 operands
// this is byte-substring matching of each character's encoding.
func (m *Machine) containsAnySym(s, chars *StrV) *Term {
	if !chars.Conc() {
		// characters symbolic: only the single-byte (ASCII-assumed) case is modelled
		r := tFalse
		for i := 0; i < chars.Len(); i++ {
			if !m.branch(Cmp("bvult", chars.Byte(i), BV(8, 0x80)), "ContainsAny chars ascii") {
				m.unmodelled("strings.ContainsAny with symbolic non-ASCII chars")
			}
			for p := 0; p < s.Len(); p++ {
				r = Or(r, Eq(s.Byte(p), chars.Byte(i)))
			}
		}
		return r
	}
	if !utf8.ValidString(chars.S) {
		m.unmodelled("strings.ContainsAny with invalid UTF-8 chars on a symbolic string")
	}
	r := tFalse
	for _, c := range chars.S {
		r = Or(r, containsAt(s, mkStr(string(c))))
	}
	return r
}

// titleSym models strings.Title on ASCII-assumed symbolic bytes (DESIGN §3.6).
func (m *Machine) titleSym(s *StrV) Val {
	bs := s.Bytes()
	out := make([]*Term, len(bs))
	isLetterOrDigit := func(b *Term) *Term {
		in := func(lo, hi byte) *Term {
			return And(Cmp("bvule", BV(8, uint64(lo)), b), Cmp("bvule", b, BV(8, uint64(hi))))
		}
		return Or(Or(in('0', '9'), in('A', 'Z')), Or(in('a', 'z'), Eq(b, BV(8, '_'))))
	}
	for i, b := range bs {
		if !m.branch(Cmp("bvult", b, BV(8, 0x80)), "Title: ascii byte") {
			m.unmodelled("strings.Title on symbolic non-ASCII bytes")
		}
		lower := And(Cmp("bvule", BV(8, 'a'), b), Cmp("bvule", b, BV(8, 'z')))
		start := tTrue
		if i > 0 {
			start = Not(isLetterOrDigit(bs[i-1]))
		}
		out[i] = Ite(And(lower, start), BinBV("bvsub", b, BV(8, 32)), b)
	}
	return strFromBytes(out, s.T)
}

// unicodeIntercept: predicates and case mappings of package unicode on a rune.
// Concrete runes use the native function; a symbolic rune that depends on one
// byte-sized variable is tabulated over that variable's values.
func (m *Machine) unicodeIntercept(name string, args []Val) handler {
	var pred func(rune) bool
	var mapf func(rune) rune
	switch name {
	case "unicode.IsUpper":
		pred = unicode.IsUpper
	case "unicode.IsLower":
		pred = unicode.IsLower
	case "unicode.IsLetter":
		pred = unicode.IsLetter
	case "unicode.IsDigit":
		pred = unicode.IsDigit
	case "unicode.IsNumber":
		pred = unicode.IsNumber
	case "unicode.IsSpace":
		pred = unicode.IsSpace
	case "unicode.IsPunct":
		pred = unicode.IsPunct
	case "unicode.IsTitle":
		pred = unicode.IsTitle
	case "unicode.IsPrint":
		pred = unicode.IsPrint
	case "unicode.IsSymbol":
		pred = unicode.IsSymbol
	case "unicode.IsControl":
		pred = unicode.IsControl
	case "unicode.IsGraphic":
		pred = unicode.IsGraphic
	case "unicode.ToUpper":
		mapf = unicode.ToUpper
	case "unicode.ToLower":
		mapf = unicode.ToLower
	case "unicode.ToTitle":
		mapf = unicode.ToTitle
	default:
		return nil
	}
	if len(args) != 1 {
		return nil
	}
	t, ok := args[0].(*Term)
	if !ok {
		return nil
	}
	f := func(x uint64) uint64 {
		r := rune(int32(uint32(x)))
		if pred != nil {
			if pred(r) {
				return 1
			}
			return 0
		}
		return uint64(uint32(mapf(r)))
	}
	outW := 0
	if mapf != nil {
		outW = 32
	}
	if t.IsConst() {
		return func() Val {
			if outW == 0 {
				return Bool(f(t.C) == 1)
			}
			return BV(32, f(t.C))
		}
	}
	v := m.singleByteVar(t)
	if v == nil {
		return func() Val { m.unmodelled("%s on a symbolic rune", name); return nil }
	}
	return func() Val {
		mod := Model{}
		n := m.domSize(v)
		if outW == 0 {
			r := tFalse
			for i := 0; i < n; i++ {
				mod[v.Name] = uint64(i)
				if f(t.Eval(mod)) == 1 {
					r = Or(r, Eq(v, BV(v.W, uint64(i))))
				}
			}
			return r
		}
		ts := make([]*Term, n)
		for i := 0; i < n; i++ {
			mod[v.Name] = uint64(i)
			ts[i] = BV(32, f(t.Eval(mod)))
		}
		return selectTerm(v, ts)
	}
}

// caseSym models strings.ToUpper / ToLower on ASCII-assumed symbolic bytes.
func (m *Machine) caseSym(s *StrV, upper bool) Val {
	bs := s.Bytes()
	out := make([]*Term, len(bs))
	for i, b := range bs {
		if !m.branch(Cmp("bvult", b, BV(8, 0x80)), "case mapping: ascii byte") {
			m.unmodelled("strings.ToUpper/ToLower on symbolic non-ASCII bytes")
		}
		if upper {
			lower := And(Cmp("bvule", BV(8, 'a'), b), Cmp("bvule", b, BV(8, 'z')))
			out[i] = Ite(lower, BinBV("bvsub", b, BV(8, 32)), b)
		} else {
			up := And(Cmp("bvule", BV(8, 'A'), b), Cmp("bvule", b, BV(8, 'Z')))
			out[i] = Ite(up, BinBV("bvadd", b, BV(8, 32)), b)
		}
	}
	return strFromBytes(out, s.T)
}

// syncMapOp models sync.Map as an ordinary map attached to the receiver's cell
// (single logical thread). Writes count as writes to the object that holds the
// sync.Map (a package-level one is shared state).
func (m *Machine) syncMapOp(op string, args []Val, caller *frame) Val {
	p := args[0].(Ptr)
	if p.C == nil {
		m.rtPanic("nil *sync.Map")
	}
	if m.syncMaps == nil {
		m.syncMaps = map[*Cell]*MapObj{}
	}
	mo := m.syncMaps[p.C]
	if mo == nil {
		mo = &MapObj{O: p.C.O, idx: map[string]*mapEnt{}}
		if p.C.O != nil && p.C.O.epoch == 0 {
			// contents are per path (the side table is reset), the owner is shared
			mo.O = &Obj{id: p.C.O.id, epoch: 1, site: p.C.O.site}
		}
		m.syncMaps[p.C] = mo
	}
	write := func(what string) {
		if p.C.O != nil {
			m.noteWrite(p.C.O, "sync.Map."+what)
			if p.C.O.epoch == 0 && m.trackWrites {
				// noteWrite already recorded it
			}
		}
	}
	switch op {
	case "Load":
		if e := m.mapFind(mo, args[1]); e != nil {
			return TupleV{e.V, tTrue}
		}
		return TupleV{Iface{}, tFalse}
	case "Store":
		write("Store")
		m.mapSet(mo, args[1], args[2], "sync.Map.Store")
		return nil
	case "LoadOrStore":
		if e := m.mapFind(mo, args[1]); e != nil {
			return TupleV{e.V, tTrue}
		}
		write("LoadOrStore")
		m.mapSet(mo, args[1], args[2], "sync.Map.LoadOrStore")
		return TupleV{args[2], tFalse}
	case "Delete":
		write("Delete")
		m.mapDelete(mo, args[1], "sync.Map.Delete")
		return nil
	case "LoadAndDelete":
		if e := m.mapFind(mo, args[1]); e != nil {
			v := e.V
			write("LoadAndDelete")
			m.mapDelete(mo, args[1], "sync.Map.LoadAndDelete")
			return TupleV{v, tTrue}
		}
		return TupleV{Iface{}, tFalse}
	case "Range":
		for _, e := range append([]*mapEnt(nil), mo.ents...) {
			if e.deleted {
				continue
			}
			r := m.callValue(args[1], []Val{e.K, e.V}, caller, nil).(*Term)
			if !m.branch(r, "sync.Map.Range continue") {
				break
			}
		}
		return nil
	}
	m.unmodelled("sync.Map.%s", op)
	return nil
}

func argStrOr(v Val, d string) string {
	if s, ok := v.(*StrV); ok && s.Conc() {
		return s.S
	}
	return d
}

// flagParse models (*flag.FlagSet).Parse with ExitOnError for concrete
// arguments: -name, --name, -name=value, --name=value, "-name value" for
// non-boolean flags; parsing stops at the first non-flag argument or "--";
// an undefined flag, a missing value or a malformed integer or boolean prints
// a message and exits with status 2 (documented behaviour of package flag).
func (m *Machine) flagParse(fsCell *Cell, argv SliceV) Val {
	fs := m.flagSets[fsCell]
	if fs == nil {
		m.unmodelled("Parse on an unmodelled FlagSet")
	}
	args, ok := m.strSliceToNative(argv)
	if !ok {
		m.unmodelled("flag parsing of symbolic arguments")
	}
	usageExit := func(msg string) {
		m.outputs = append(m.outputs, OutEvent{Sink: "stderr flag", Text: msg})
		m.outputs = append(m.outputs, OutEvent{Sink: "exit", Text: "2"})
		panic(&abortPath{"exit", "2"})
	}
	for i := 0; i < len(args); i++ {
		a := args[i]
		if len(a) < 2 || a[0] != '-' {
			break
		}
		name := a[1:]
		if name[0] == '-' {
			name = name[1:]
			if name == "" {
				break
			}
		}
		if name == "" || name[0] == '-' || name[0] == '=' {
			usageExit("bad flag syntax: " + a)
		}
		val, hasVal := "", false
		if k := strings.IndexByte(name, '='); k >= 0 {
			name, val, hasVal = name[:k], name[k+1:], true
		}
		if name == "h" || name == "help" {
			if _, defined := fs.vars[name]; !defined {
				m.outputs = append(m.outputs, OutEvent{Sink: "stderr flag", Text: "usage"})
				m.outputs = append(m.outputs, OutEvent{Sink: "exit", Text: "0"})
				panic(&abortPath{"exit", "0"})
			}
		}
		fv, defined := fs.vars[name]
		if !defined {
			usageExit("flag provided but not defined: -" + name)
		}
		if fv.kind == "bool" {
			b := true
			if hasVal {
				pb, err := strconv.ParseBool(val)
				if err != nil {
					usageExit("invalid boolean value")
				}
				b = pb
			}
			m.storeCell(fv.cell, Bool(b), "flag.Parse")
			continue
		}
		if !hasVal {
			if i+1 >= len(args) {
				usageExit("flag needs an argument: -" + name)
			}
			i++
			val = args[i]
		}
		switch fv.kind {
		case "int":
			n, err := strconv.ParseInt(val, 0, 64)
			if err != nil {
				usageExit("invalid value for flag -" + name)
			}
			m.storeCell(fv.cell, BV(64, uint64(n)), "flag.Parse")
		default:
			m.storeCell(fv.cell, mkStr(val), "flag.Parse")
		}
	}
	return Iface{}
}

// syncPoolOp models sync.Pool as a LIFO free list attached to the pool's cell
// (single logical thread; the runtime may also drop items, which only makes Get
// call New more often). Put stores into the pool, i.e. into shared state.
func (m *Machine) syncPoolOp(op string, args []Val, caller *frame) Val {
	p := args[0].(Ptr)
	if p.C == nil {
		m.rtPanic("nil *sync.Pool")
	}
	if m.syncPools == nil {
		m.syncPools = map[*Cell][]Val{}
	}
	switch op {
	case "Put":
		if i, ok := args[1].(Iface); ok && i.T == nil {
			return nil
		}
		if p.C.O != nil {
			m.noteWrite(p.C.O, "sync.Pool.Put")
		}
		m.syncPools[p.C] = append(m.syncPools[p.C], args[1])
		return nil
	case "Get":
		if st := m.syncPools[p.C]; len(st) > 0 {
			v := st[len(st)-1]
			m.syncPools[p.C] = st[:len(st)-1]
			return v
		}
		// call the New field when set
		sv, ok := p.C.V.(*StructV)
		if ok {
			if pt, ok := m.prog.pkgs["sync"].Members["Pool"].(*ssa.Type); ok {
				if st, ok := pt.Type().Underlying().(*types.Struct); ok {
					for i := 0; i < st.NumFields(); i++ {
						if st.Field(i).Name() == "New" {
							if cl, ok := sv.F[i].V.(*Closure); ok && cl != nil {
								return m.callValue(cl, nil, caller, nil)
							}
						}
					}
				}
			}
		}
		return Iface{}
	}
	return nil
}

// syncOnceDo models sync.Once in the single logical thread: the done flag is
// the leaf integer cell of the Once value itself (so that copying the struct
// copies the flag, as in Go); the first Do stores into it - a write to whatever
// object holds the Once - and calls f.
func (m *Machine) syncOnceDo(args []Val, caller *frame) Val {
	p := args[0].(Ptr)
	if p.C == nil {
		m.rtPanic("nil *sync.Once")
	}
	c := p.C
	for depth := 0; depth < 4; depth++ {
		sv, ok := c.V.(*StructV)
		if !ok {
			break
		}
		var next *Cell
		for _, f := range sv.F {
			if t, ok := f.V.(*Term); ok && t.W == 32 {
				next = f
				break
			}
		}
		if next == nil {
			for _, f := range sv.F {
				if in, ok := f.V.(*StructV); ok && len(in.F) > 0 {
					next = f
					break
				}
			}
		}
		if next == nil {
			break
		}
		c = next
	}
	t, ok := c.V.(*Term)
	if !ok {
		m.unmodelled("sync.Once layout")
	}
	if m.branch(Eq(t, BV(t.W, 0)), "sync.Once: first call") {
		m.storeCell(c, BV(t.W, 1), "sync.Once.Do")
		if cl := args[1]; cl != nil {
			m.callValue(cl, nil, caller, nil)
		}
	}
	return nil
}

// stringsBuilderOp models strings.Builder (whose implementation uses unsafe) as
// a string accumulated in a side table keyed by the receiver.
func (m *Machine) stringsBuilderOp(op string, args []Val) Val {
	p := args[0].(Ptr)
	if p.C == nil {
		m.rtPanic("nil *strings.Builder")
	}
	if m.builders == nil {
		m.builders = map[*Cell]*StrV{}
	}
	cur := m.builders[p.C]
	if cur == nil {
		cur = &StrV{}
	}
	write := func(s *StrV) {
		if p.C.O != nil {
			m.noteWrite(p.C.O, "strings.Builder write")
		}
		m.builders[p.C] = strConcat(cur, s)
	}
	switch op {
	case "WriteString":
		s := args[1].(*StrV)
		write(s)
		return TupleV{bv64(s.Len()), Iface{}}
	case "WriteByte":
		write(strFromBytes([]*Term{args[1].(*Term)}, false))
		return Iface{}
	case "WriteRune":
		r := args[1].(*Term)
		if !r.IsConst() {
			if m.branch(Cmp("bvult", r, BV(32, 0x80)), "WriteRune: ascii") {
				write(strFromBytes([]*Term{Extract(r, 7, 0)}, false))
				return TupleV{bv64(1), Iface{}}
			}
			m.unmodelled("strings.Builder.WriteRune of a symbolic non-ASCII rune")
		}
		s := string(rune(int32(uint32(r.C))))
		write(mkStr(s))
		return TupleV{bv64(len(s)), Iface{}}
	case "Write":
		sl := args[1].(SliceV)
		bs := make([]*Term, sl.Len)
		for i := range bs {
			bs[i] = sl.A.E[sl.Off+i].V.(*Term)
		}
		write(strFromBytes(bs, false))
		return TupleV{bv64(sl.Len), Iface{}}
	case "String":
		return cur
	case "Len", "Cap":
		return bv64(cur.Len())
	case "Reset":
		if p.C.O != nil {
			m.noteWrite(p.C.O, "strings.Builder reset")
		}
		m.builders[p.C] = &StrV{}
		return nil
	case "Grow":
		return nil
	}
	m.unmodelled("strings.Builder.%s", op)
	return nil
}

// atomicIntercept: the sync/atomic functions as plain memory operations of the
// single logical thread (a store is a write to the addressed object, so an
// atomic counter in shared memory is seen by the write-set analysis).
func (m *Machine) atomicIntercept(name string, args []Val) handler {
	op := ""
	for _, p := range []string{"CompareAndSwap", "Add", "Load", "Store", "Swap", "And", "Or"} {
		if strings.HasPrefix(name, p) {
			op = p
			break
		}
	}
	if op == "" || len(args) == 0 {
		return nil
	}
	if _, ok := args[0].(Ptr); !ok {
		return nil
	}
	return func() Val {
		switch op {
		case "Load":
			return m.load(args[0])
		case "Store":
			m.store(args[0], args[1], "atomic store")
			return nil
		case "Add":
			nv := BinBV("bvadd", m.load(args[0]).(*Term), args[1].(*Term))
			m.store(args[0], nv, "atomic add")
			return nv
		case "And":
			old := m.load(args[0]).(*Term)
			m.store(args[0], BinBV("bvand", old, args[1].(*Term)), "atomic and")
			return old
		case "Or":
			old := m.load(args[0]).(*Term)
			m.store(args[0], BinBV("bvor", old, args[1].(*Term)), "atomic or")
			return old
		case "Swap":
			old := m.load(args[0])
			m.store(args[0], args[1], "atomic swap")
			return old
		case "CompareAndSwap":
			old := m.load(args[0])
			if m.branch(valEq(old, args[1]), "atomic compare-and-swap") {
				m.store(args[0], args[2], "atomic compare-and-swap")
				return tTrue
			}
			return tFalse
		}
		return nil
	}
}
