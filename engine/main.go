package main

import (
	"encoding/json"
	"flag"
	"fmt"
	"os"
	"os/exec"
	"path/filepath"
	"runtime/debug"
	"runtime/pprof"
	"sort"
	"strconv"
	"strings"
	"time"
)

var (
	verifDir = envOr("VERIF_DIR", "/verif")
	repoDir  = envOr("VERIF_REPO", "/repo")
)

func envOr(k, d string) string {
	if v := os.Getenv(k); v != "" {
		return v
	}
	return d
}

func main() {
	debug.SetGCPercent(600)
	if len(os.Args) < 2 {
		fmt.Fprintln(os.Stderr, "usage: gosym run|check|replay|selftest ...")
		os.Exit(2)
	}
	switch os.Args[1] {
	case "run":
		cmdRun(os.Args[2:])
	case "check":
		os.Exit(cmdCheck(os.Args[2:]))
	case "replay":
		os.Exit(cmdReplay(os.Args[2:]))
	case "selftest":
		os.Exit(cmdSelftest(os.Args[2:]))
	default:
		fmt.Fprintln(os.Stderr, "unknown command", os.Args[1])
		os.Exit(2)
	}
}

// harnessOverlay maps every file of /verif/harness/<sub> (except native-only
// ones) to a virtual file in the target package directory.
func harnessOverlay(sub, targetDir string, native bool) (map[string][]byte, map[string]string, error) {
	dir := filepath.Join(verifDir, "harness", sub)
	ents, err := os.ReadDir(dir)
	if err != nil {
		return nil, nil, err
	}
	ov := map[string][]byte{}
	paths := map[string]string{}
	for _, e := range ents {
		n := e.Name()
		if !strings.HasSuffix(n, ".go") {
			continue
		}
		isNative := strings.HasPrefix(n, "native_")
		isDecl := strings.HasPrefix(n, "engine_")
		if native && isDecl || !native && isNative {
			continue
		}
		b, err := os.ReadFile(filepath.Join(dir, n))
		if err != nil {
			return nil, nil, err
		}
		vn := "zz_verif_" + n
		if native {
			vn = "zz_verif_" + strings.TrimSuffix(n, ".go") + "_test.go"
		}
		ov[filepath.Join(targetDir, vn)] = b
		paths[filepath.Join(targetDir, vn)] = filepath.Join(dir, n)
	}
	return ov, paths, nil
}

func repoHead() string {
	out, err := exec.Command("git", "-C", repoDir, "rev-parse", "--short", "HEAD").Output()
	if err != nil {
		return "unknown"
	}
	h := strings.TrimSpace(string(out))
	st, _ := exec.Command("git", "-C", repoDir, "status", "--porcelain").Output()
	if len(strings.TrimSpace(string(st))) > 0 {
		h += "+dirty"
	}
	return h
}

func loadFor(sub string, tags []string) (*Program, error) {
	target := repoDir
	pkg := "."
	if sub == "opgen" {
		target = filepath.Join(repoDir, "cmd", "opgen")
		pkg = "./cmd/opgen"
	}
	ov, _, err := harnessOverlay(sub, target, false)
	if err != nil {
		return nil, err
	}
	p, err := LoadProgram(LoadConfig{RepoDir: repoDir, PkgPath: pkg, Overlay: ov, Tags: tags,
		InitPkgs: []string{"go.1password.io/spg", "github.com/deckarep/golang-set", "unicode/utf8", "encoding/binary"}})
	if err != nil {
		return nil, err
	}
	p.repoHead = repoHead()
	return p, nil
}

func parseParams(s string, into map[string]int) {
	for _, kv := range strings.Split(s, ",") {
		if kv == "" {
			continue
		}
		p := strings.SplitN(kv, "=", 2)
		if len(p) == 2 {
			v, _ := strconv.Atoi(p[1])
			into[p[0]] = v
		}
	}
}

// cmdRun explores one harness and prints a summary (development aid).
func cmdRun(args []string) {
	fs := flag.NewFlagSet("run", flag.ExitOnError)
	h := fs.String("h", "", "harness function")
	sub := fs.String("sub", "spg", "harness set (spg|opgen)")
	workers := fs.Int("w", 16, "workers")
	unwind := fs.Int("unwind", 20000, "unwind bound")
	maxPaths := fs.Int("paths", 200000, "path budget")
	params := fs.String("p", "", "k=v,...")
	useInt := fs.Bool("int", false, "enable INT solvers")
	x := fs.Bool("x", false, "cross-check")
	notag := fs.Bool("notag", false, "load without the verif tag")
	verbose := fs.Bool("v", false, "verbose")
	doReplay := fs.Bool("replay", false, "replay failures natively")
	prof := fs.String("cpuprofile", "", "write a CPU profile")
	fs.Parse(args)
	if *prof != "" {
		f, _ := os.Create(*prof)
		pprof.StartCPUProfile(f)
		defer pprof.StopCPUProfile()
	}
	tags := []string{"verif"}
	if *notag {
		tags = nil
	}
	p, err := loadFor(*sub, tags)
	if err != nil {
		fmt.Fprintln(os.Stderr, err)
		os.Exit(2)
	}
	fmt.Printf("loaded in %.1fs\n", p.loadSecs)
	cfg := defaultCfg(*h)
	cfg.Workers, cfg.Unwind, cfg.MaxPaths, cfg.IntSolvers, cfg.CrossCheck = *workers, *unwind, *maxPaths, *useInt, *x
	parseParams(*params, cfg.Params)
	stats := newSolverStats()
	hr, err := Explore(p, *h, cfg, stats)
	if err != nil {
		fmt.Fprintln(os.Stderr, err)
		os.Exit(2)
	}
	printHarnessResult(hr, stats, *verbose)
	if *doReplay && len(hr.Failures) > 0 {
		rp, err := NewReplayer(*sub)
		if err != nil {
			fmt.Println("replayer:", err)
			return
		}
		defer rp.Close()
		seen := map[string]int{}
		for _, f := range hr.Failures {
			if seen[f.Msg] >= 2 {
				continue
			}
			seen[f.Msg]++
			path := filepath.Join(os.TempDir(), fmt.Sprintf("gosym-run-%d-%d.json", os.Getpid(), len(seen)*10+seen[f.Msg]))
			writeJSON(path, f.Replay)
			out, verdict := rp.Run(path)
			fmt.Printf("replay %q -> %s\n%s\n", f.Msg, verdict, out)
			os.Remove(path)
		}
	}
}

func printHarnessResult(hr *HarnessResult, stats *SolverStats, verbose bool) {
	fmt.Printf("harness %s: %d paths in %.1fs, status %v, asserts discharged %d (+%d trivially true), failures %d, inconclusive %d, steps %d\n",
		hr.Name, hr.Paths, hr.WallS, hr.ByStatus, hr.Asserts, hr.TrivAssert, len(hr.Failures), len(hr.Inconcl), hr.Steps)
	fmt.Printf("  reached: %v\n", hr.Reached)
	fmt.Printf("  solver: %v secs %v errors %d restarts %d\n", stats.Queries, stats.Seconds, stats.Errors, stats.Restarts)
	if len(hr.Unmodelled) > 0 {
		fmt.Printf("  unmodelled: %v\n", hr.Unmodelled)
	}
	seen := map[string]int{}
	for _, f := range hr.Failures {
		seen[f.Msg]++
		if seen[f.Msg] <= 2 {
			b, _ := json.Marshal(f.Replay)
			fmt.Printf("  FAIL %s valid=%v known=%q %s\n    %s\n", f.Msg, f.Valid, f.Known, f.Detail, b)
		}
	}
	for k, n := range seen {
		fmt.Printf("  failure %q x%d\n", k, n)
	}
	ic := map[string]int{}
	for _, s := range hr.Inconcl {
		ic[s]++
	}
	for k, n := range ic {
		fmt.Printf("  inconclusive x%d: %s\n", n, k)
	}
	if verbose {
		var fns []string
		for f := range hr.Funcs {
			fns = append(fns, f)
		}
		sort.Strings(fns)
		for _, f := range fns {
			fmt.Printf("  fn %s x%d\n", f, hr.Funcs[f])
		}
		for k, vs := range hr.Notes {
			fmt.Printf("  note %s: %d distinct\n", k, len(vs))
			i := 0
			for v, n := range vs {
				if i < 8 {
					fmt.Printf("     %s x%d\n", v, n)
				}
				i++
			}
		}
		for _, s := range hr.Samples {
			b, _ := json.Marshal(s)
			fmt.Printf("  sample %s\n", b)
		}
		for _, s := range hr.Shared {
			fmt.Printf("  shared write: %s\n", s)
		}
	}
}

func writeJSON(path string, v interface{}) error {
	b, err := json.MarshalIndent(v, "", " ")
	if err != nil {
		return err
	}
	os.MkdirAll(filepath.Dir(path), 0o755)
	return os.WriteFile(path, append(b, '\n'), 0o644)
}

var _ = time.Now
