package main

// Program loading, the Machine (one executor per worker), and the path explorer.

import (
	"fmt"
	"go/token"
	"go/types"
	"os"
	"path/filepath"
	"sort"
	"strings"
	"sync"
	"sync/atomic"
	"time"

	"golang.org/x/tools/go/packages"
	"golang.org/x/tools/go/ssa"
	"golang.org/x/tools/go/ssa/ssautil"
)

type Program struct {
	fset      *token.FileSet
	prog      *ssa.Program
	pkgs      map[string]*ssa.Package // by import path
	main      *ssa.Package            // package that holds the harnesses
	errorsNew *ssa.Function
	initAllow map[string]bool
	loadSecs  float64
	mu        sync.Mutex
	methCache map[string]*ssa.Function
	repoHead  string
	tags      []string
}

type LoadConfig struct {
	RepoDir  string
	PkgPath  string            // package pattern to load, e.g. "." or "./cmd/opgen"
	Overlay  map[string][]byte // virtual files
	Tags     []string
	InitPkgs []string
}

func LoadProgram(lc LoadConfig) (*Program, error) {
	start := time.Now()
	cfg := &packages.Config{
		Mode:    packages.LoadAllSyntax,
		Dir:     lc.RepoDir,
		Overlay: lc.Overlay,
		Env:     append(os.Environ(), "GOFLAGS=-mod=mod", "GOPROXY=off", "GOSUMDB=off", "GOTOOLCHAIN=local"),
	}
	if len(lc.Tags) > 0 {
		cfg.BuildFlags = []string{"-tags=" + strings.Join(lc.Tags, ",")}
	}
	initial, err := packages.Load(cfg, lc.PkgPath)
	if err != nil {
		return nil, err
	}
	var errs []string
	packages.Visit(initial, nil, func(p *packages.Package) {
		for _, e := range p.Errors {
			errs = append(errs, e.Error())
		}
	})
	if len(errs) > 0 {
		return nil, fmt.Errorf("load errors (the tree does not compile with the harness):\n%s", strings.Join(errs, "\n"))
	}
	prog, spkgs := ssautil.AllPackages(initial, ssa.InstantiateGenerics)
	prog.Build()
	p := &Program{fset: prog.Fset, prog: prog, pkgs: map[string]*ssa.Package{}, methCache: map[string]*ssa.Function{}, tags: lc.Tags}
	for _, sp := range prog.AllPackages() {
		p.pkgs[sp.Pkg.Path()] = sp
	}
	p.main = spkgs[0]
	if e := p.pkgs["errors"]; e != nil {
		p.errorsNew = e.Func("New")
	}
	p.initAllow = map[string]bool{}
	for _, ip := range lc.InitPkgs {
		p.initAllow[ip] = true
	}
	p.loadSecs = time.Since(start).Seconds()
	return p, nil
}

var fnNames sync.Map

func (p *Program) fnName(fn *ssa.Function) string {
	if n, ok := fnNames.Load(fn); ok {
		return n.(string)
	}
	n := fn.String()
	fnNames.Store(fn, n)
	return n
}

var typeNames sync.Map

func typeName(t types.Type) string {
	if n, ok := typeNames.Load(t); ok {
		return n.(string)
	}
	n := t.String()
	typeNames.Store(t, n)
	return n
}

func (p *Program) lookupMethod(t types.Type, meth *types.Func) *ssa.Function {
	key := typeName(t) + "." + meth.Id()
	p.mu.Lock()
	defer p.mu.Unlock()
	if f, ok := p.methCache[key]; ok {
		return f
	}
	f := p.prog.LookupMethod(t, meth.Pkg(), meth.Name())
	p.methCache[key] = f
	return f
}

func (p *Program) lookupMethodByName(t types.Type, name string) *ssa.Function {
	ms := p.prog.MethodSets.MethodSet(t)
	for i := 0; i < ms.Len(); i++ {
		sel := ms.At(i)
		if sel.Obj().Name() == name {
			p.mu.Lock()
			defer p.mu.Unlock()
			return p.prog.MethodValue(sel)
		}
	}
	return nil
}

// ---- configuration of one harness run ----

type HarnessCfg struct {
	Name          string
	Unwind        int
	MaxConcretise int
	MaxPermute    int
	MaxPaths      int
	FeasTimeout   time.Duration
	AssertTimeout time.Duration
	Workers       int
	IntSolvers    bool // make INT back ends available for assertion queries
	CrossCheck    bool // second solver on assertion queries
	MaxSeconds    int  // wall-clock budget of one harness exploration (0: none)
	Params        map[string]int
}

func defaultCfg(name string) *HarnessCfg {
	return &HarnessCfg{Name: name, Unwind: 200000, MaxConcretise: 64, MaxPermute: 4, MaxPaths: 200000,
		FeasTimeout: 3 * time.Second, AssertTimeout: 20 * time.Second, Workers: 16, Params: map[string]int{}}
}

// ---- results ----

type InputRec struct {
	Name  string  `json:"name"`
	Kind  string  `json:"kind"` // u8 u32 u64 int bool bytes len choice
	W     int     `json:"w,omitempty"`
	Terms []*Term `json:"-"`
	Conc  int     `json:"conc,omitempty"` // for len/choice
}

type OutEvent struct {
	Sink    string
	Text    string
	Tainted bool
	Str     *StrV
}

// flagSetModel is the engine's model of a flag.FlagSet (by contract, DESIGN §5 C17).
type flagSetModel struct {
	name  string
	order []string
	vars  map[string]*flagVar
}

type flagVar struct {
	kind string // int | string | bool
	cell *Cell
}

type Failure struct {
	Harness string
	Msg     string
	Kind    string // assert | panic
	Replay  *ReplayFile
	Known   string // matched known-finding key ("" if none)
	Prefix  []int
	Valid   bool // model validated by concrete evaluation
	Detail  string
}

type PathResult struct {
	Status     string // ok | panic | infeasible | unmodelled | unwind | concretise | budget
	Why        string
	Asserts    int // assertion queries discharged (unsat)
	TrivAssert int // assertions true by construction (no query needed)
	Failures   []*Failure
	Inconcl    []string
	Reached    []string
	Notes      map[string]string
	Steps      int
	Decisions  int
	Draws      int
	Reads      int
	Spawn      [][]int
	Funcs      map[string]int
	Shared     []string
	Sample     map[string]interface{}
	KnownKeys  []string
}

type sharedState struct {
	paths     int64
	maxPaths  int64
	enumCache sync.Map
	deadline  time.Time
	provenMu  sync.Mutex
	proven    map[uint64][][]uint64 // goal hash -> path-condition hash sets under which it was proved
}

// provenUnder reports whether goal was already proved under a subset of the
// current path condition (a goal proved from fewer assumptions stays proved).
func (s *sharedState) provenUnder(goal uint64, pc map[uint64]bool) bool {
	s.provenMu.Lock()
	defer s.provenMu.Unlock()
	for _, set := range s.proven[goal] {
		ok := true
		for _, h := range set {
			if !pc[h] {
				ok = false
				break
			}
		}
		if ok {
			return true
		}
	}
	return false
}

func (s *sharedState) recordProven(goal uint64, pc []uint64) {
	s.provenMu.Lock()
	defer s.provenMu.Unlock()
	if s.proven == nil {
		s.proven = map[uint64][][]uint64{}
	}
	if len(s.proven[goal]) < 8 {
		s.proven[goal] = append(s.proven[goal], pc)
	}
}

func (s *sharedState) overBudget() bool {
	if atomic.LoadInt64(&s.paths) > s.maxPaths {
		return true
	}
	return !s.deadline.IsZero() && time.Now().After(s.deadline)
}

// ---- the machine ----

type Machine struct {
	prog   *Program
	cfg    *HarnessCfg
	shared *sharedState
	sol    *Solver
	intSol []*Solver
	xSol   *Solver
	stats  *SolverStats

	globals   map[*ssa.Global]*Cell
	inInit    bool
	undo      []undoRec
	mapUndos  []mapUndo
	chanUndos []chanUndo
	nextObj   int
	epoch     int
	depth     int
	steps     int

	// per path
	pc            []*Term
	pcSat         bool
	pcIndex       map[uint64][]*Term
	dom           map[string]*byteDom
	multi         map[string]bool
	domDecided    int
	stdoutCell    *Cell
	stderrCell    *Cell
	flagSets      map[*Cell]*flagSetModel
	fileContent   *StrV
	fileSet       bool
	lastFocus     []*Term
	alias         map[string]*Term
	varBound      map[string]int
	syncMaps      map[*Cell]*MapObj
	syncPools     map[*Cell][]Val
	builders      map[*Cell]*StrV
	taintedSlices []*ArrObj
	prefix        []int
	pos           int
	spawn         [][]int
	decisions     int
	unwindCut     int
	concretiseCut int
	inputs        []*InputRec
	varSeq        int
	tape          []*Term // every byte handed out by the random source, in order
	reads         int     // rand.Read calls
	draws         []drawRec
	summary       bool
	drawLimit     int
	coinMode      int // vCoinScript: 0 off, 1 all ones, 2 all zeros, 3 alternating from one
	coinFree      int // index (among the scripted coins) of the one that stays symbolic, -1 none
	coinSeen      int
	drawLimitMsg  string
	replayIdx     int
	replayEnd     int
	fault         *faultSpec
	faultHit      bool
	shortReads    bool
	shortTaken    bool
	script        []byte // concrete source bytes delivered next (vTapeScript)
	readLens      []int
	tapePos       int
	rewound       bool
	outputs       []OutEvent
	trackWrites   bool
	sharedWrites  []string
	orderOn       bool
	orderUsed     bool
	useInt        bool
	big           bigTable
	res           *PathResult
	funcs         map[string]int
	knownKeys     []string
	uncaught      *goPanic
	stack         []*ssa.Function
	crash         string
	specialGlobal bool
}

type drawRec struct {
	N *Term // bound passed to the kernel
	D *Term // result
}

type faultSpec struct {
	read int // index of the failing rand.Read call
	n    int // bytes delivered
}

func NewMachine(p *Program, cfg *HarnessCfg, shared *sharedState, stats *SolverStats) *Machine {
	m := &Machine{prog: p, cfg: cfg, shared: shared, stats: stats, globals: map[*ssa.Global]*Cell{}}
	m.sol = NewSolver(kindZ3BV, stats)
	if cfg.IntSolvers {
		m.intSol = []*Solver{NewSolver(kindZ3NewI, stats), NewSolver(kindCvc5I, stats)}
	}
	if cfg.CrossCheck {
		m.xSol = NewSolver(kindCvc5BV, stats)
	}
	m.runInits()
	return m
}

func (m *Machine) Close() {
	m.sol.Close()
	for _, s := range m.intSol {
		s.Close()
	}
	if m.xSol != nil {
		m.xSol.Close()
	}
}

func (m *Machine) noteFunc(fn *ssa.Function) {
	if m.funcs != nil {
		m.funcs[m.prog.fnName(fn)]++
	}
}

func (m *Machine) orderChoice(fn *ssa.Function) bool { return m.orderOn }

// runInits executes the package initialisers of the allow-listed packages once,
// concretely (epoch 0).
func (m *Machine) runInits() {
	m.inInit = true
	m.epoch = 0
	m.big = bigTable{ints: map[*Cell]*big_Int{}, floats: map[*Cell]*big_Float{}}
	defer func() { m.inInit = false }()
	saveCfg := m.cfg
	c := *m.cfg
	c.Unwind = 1 << 30
	m.cfg = &c
	defer func() { m.cfg = saveCfg }()
	var order []string
	for path := range m.prog.initAllow {
		order = append(order, path)
	}
	sort.Strings(order)
	// the harness package's init calls its dependencies' inits itself; run the
	// others explicitly first (idempotent through init$guard)
	for _, path := range order {
		if sp := m.prog.pkgs[path]; sp != nil {
			if f := sp.Func("init"); f != nil {
				m.callFn(f, nil, nil, nil, nil)
			}
		}
	}
	if f := m.prog.main.Func("init"); f != nil {
		m.callFn(f, nil, nil, nil, nil)
	}
	m.initSpecialGlobals()
}

// resetPath prepares for a fresh execution of the harness.
func (m *Machine) resetPath(prefix []int) {
	for i := len(m.undo) - 1; i >= 0; i-- {
		m.undo[i].c.V = m.undo[i].old
	}
	m.undo = m.undo[:0]
	for i := len(m.mapUndos) - 1; i >= 0; i-- {
		u := m.mapUndos[i]
		u.m.ents, u.m.idx, u.m.n, u.m.nsym = u.ents, u.idx, u.n, u.nsym
	}
	m.mapUndos = m.mapUndos[:0]
	for i := len(m.chanUndos) - 1; i >= 0; i-- {
		u := m.chanUndos[i]
		u.ch.q, u.ch.closed = u.q, u.closed
	}
	m.chanUndos = m.chanUndos[:0]
	m.pc = nil
	m.pcIndex = nil
	m.dom = nil
	m.varBound = nil
	m.alias = nil
	m.fileContent, m.fileSet = nil, false
	m.syncMaps = nil
	m.syncPools = nil
	m.builders = nil
	m.multi = nil
	m.pcSat = true
	m.prefix = append([]int(nil), prefix...)
	m.pos = 0
	m.spawn = nil
	m.decisions = 0
	m.unwindCut, m.concretiseCut = 0, 0
	m.inputs = nil
	m.varSeq = 0
	m.tape = nil
	m.reads = 0
	m.draws = nil
	m.summary = false
	m.replayIdx, m.replayEnd = -1, 0
	m.drawLimit, m.drawLimitMsg = 0, ""
	m.coinMode, m.coinFree, m.coinSeen = 0, -1, 0
	m.fault = nil
	m.faultHit = false
	m.shortReads = false
	m.shortTaken = false
	m.script = nil
	m.readLens = nil
	m.tapePos, m.rewound = 0, false
	m.outputs = nil
	m.trackWrites = false
	m.sharedWrites = nil
	m.orderOn = false
	m.orderUsed = false
	m.useInt = false
	m.epoch = 1
	m.depth = 0
	m.steps = 0
	m.knownKeys = nil
	m.uncaught = nil
	m.big = bigTable{ints: map[*Cell]*big_Int{}, floats: map[*Cell]*big_Float{}}
	m.funcs = map[string]int{}
	m.res = &PathResult{Notes: map[string]string{}, Sample: map[string]interface{}{}}
}

// RunPath executes the harness along one decision prefix.
func (m *Machine) RunPath(h *ssa.Function, prefix []int) (res *PathResult) {
	m.resetPath(prefix)
	m.sol.Push()
	defer func() {
		for m.sol.Depth() > 0 {
			m.sol.Pop()
		}
		res = m.res
		res.Steps = m.steps
		res.Decisions = m.decisions
		res.Draws = len(m.draws)
		res.Reads = m.reads
		res.Spawn = m.spawn
		res.Funcs = m.funcs
		res.Shared = m.sharedWrites
		res.KnownKeys = m.knownKeys
		if r := recover(); r != nil {
			switch x := r.(type) {
			case *abortPath:
				res.Status, res.Why = x.kind, x.why
			case *goPanic:
				res.Status, res.Why = "panic", x.msg
			default:
				panic(r)
			}
			return
		}
		res.Status = "ok"
	}()
	m.callFn(h, nil, nil, nil, nil)
	return
}

// ---- exploring all paths of a harness ----

type HarnessResult struct {
	Name       string
	Paths      int
	ByStatus   map[string]int
	Asserts    int
	TrivAssert int
	Failures   []*Failure
	Inconcl    []string
	Reached    map[string]int
	Steps      int64
	Funcs      map[string]int
	Samples    []map[string]interface{}
	Shared     []string
	Unmodelled map[string]int
	WallS      float64
	Decisions  int
	MaxDraws   int
	Notes      map[string]map[string]int
	BudgetHit  bool
}

func Explore(p *Program, hname string, cfg *HarnessCfg, stats *SolverStats) (*HarnessResult, error) {
	h := p.main.Func(hname)
	if h == nil {
		return nil, fmt.Errorf("harness %s not found in %s", hname, p.main.Pkg.Path())
	}
	start := time.Now()
	hr := &HarnessResult{Name: hname, ByStatus: map[string]int{}, Reached: map[string]int{}, Funcs: map[string]int{}, Unmodelled: map[string]int{}, Notes: map[string]map[string]int{}}
	shared := &sharedState{maxPaths: int64(cfg.MaxPaths)}
	if cfg.MaxSeconds > 0 {
		shared.deadline = time.Now().Add(time.Duration(cfg.MaxSeconds) * time.Second)
	}
	var mu sync.Mutex
	cond := sync.NewCond(&mu)
	queue := [][]int{{}}
	active := 0
	var wg sync.WaitGroup
	nw := cfg.Workers
	if nw < 1 {
		nw = 1
	}
	var firstPanic interface{}
	for w := 0; w < nw; w++ {
		wg.Add(1)
		go func(w int) {
			defer wg.Done()
			var m *Machine
			defer func() {
				if m != nil {
					m.Close()
				}
			}()
			for {
				mu.Lock()
				for len(queue) == 0 && active > 0 && firstPanic == nil {
					cond.Wait()
				}
				if (len(queue) == 0 && active == 0) || firstPanic != nil {
					mu.Unlock()
					cond.Broadcast()
					return
				}
				prefix := queue[len(queue)-1]
				queue = queue[:len(queue)-1]
				active++
				mu.Unlock()
				var res *PathResult
				func() {
					defer func() {
						if r := recover(); r != nil {
							mu.Lock()
							if firstPanic == nil {
								crash := ""
								if m != nil {
									crash = m.crash
								}
								firstPanic = fmt.Sprintf("engine panic on prefix %v: %v\nSSA stack:\n%s\n%s", prefix, r, crash, stackTrace())
							}
							mu.Unlock()
						}
					}()
					if m == nil {
						m = NewMachine(p, cfg, shared, stats)
					}
					res = m.RunPath(h, prefix)
				}()
				atomic.AddInt64(&shared.paths, 1)
				mu.Lock()
				active--
				if res != nil {
					hr.absorb(res)
					queue = append(queue, res.Spawn...)
				}
				mu.Unlock()
				cond.Broadcast()
			}
		}(w)
	}
	wg.Wait()
	if firstPanic != nil {
		return nil, fmt.Errorf("%v", firstPanic)
	}
	hr.WallS = time.Since(start).Seconds()
	hr.BudgetHit = shared.overBudget()
	return hr, nil
}

func (hr *HarnessResult) absorb(r *PathResult) {
	hr.Paths++
	hr.ByStatus[r.Status]++
	hr.Asserts += r.Asserts
	hr.TrivAssert += r.TrivAssert
	hr.Failures = append(hr.Failures, r.Failures...)
	hr.Inconcl = append(hr.Inconcl, r.Inconcl...)
	for _, l := range r.Reached {
		hr.Reached[l]++
	}
	hr.Steps += int64(r.Steps)
	hr.Decisions += r.Decisions
	if r.Draws > hr.MaxDraws {
		hr.MaxDraws = r.Draws
	}
	for f, n := range r.Funcs {
		hr.Funcs[f] += n
	}
	if r.Status == "unmodelled" {
		hr.Unmodelled[r.Why]++
	}
	if r.Status == "unwind" || r.Status == "concretise" || r.Status == "budget" {
		hr.Inconcl = append(hr.Inconcl, r.Status+": "+r.Why)
	}
	if r.Status == "panic" {
		hr.Inconcl = append(hr.Inconcl, "uncaught Go panic in harness: "+r.Why)
	}
	for _, s := range r.Shared {
		if len(hr.Shared) < 50 {
			hr.Shared = append(hr.Shared, s)
		}
	}
	if len(r.Sample) > 0 && (len(hr.Samples) < 6 || (len(hr.Samples) < 12 && hr.Paths%97 == 0)) {
		hr.Samples = append(hr.Samples, r.Sample)
	}
	for k, v := range r.Notes {
		if hr.Notes[k] == nil {
			hr.Notes[k] = map[string]int{}
		}
		if len(hr.Notes[k]) < 4096 {
			hr.Notes[k][v]++
		}
	}
}

func stackTrace() string {
	buf := make([]byte, 1<<14)
	n := runtimeStack(buf)
	return string(buf[:n])
}

func absPath(p string) string {
	a, err := filepath.Abs(p)
	if err != nil {
		return p
	}
	return a
}
