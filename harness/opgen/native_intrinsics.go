package main

// Native bodies of the harness intrinsics for cmd/opgen (replay build only).
// vRunMain executes the separately built opgen binary ($GOSYM_OPGEN_BIN).

import (
	"bytes"
	"encoding/json"
	"fmt"
	"os"
	"os/exec"
	"path/filepath"
	"strings"
	"testing"
)

type vReplayFile struct {
	Harness string            `json:"harness"`
	Values  map[string]uint64 `json:"values"`
	Choices map[string]int    `json:"choices"`
	Params  map[string]int    `json:"params"`
}

type vAssertFailed struct{ msg string }
type vAssumeFailed struct{}

var vRF vReplayFile

func vU8(name string) uint8 { return uint8(vRF.Values[name]) }
func vInt(name string) int  { return int(int64(vRF.Values[name])) }
func vLen(name string, lo, hi int) int {
	if v, ok := vRF.Choices[name]; ok {
		return v
	}
	return lo
}
func vChoice(name string, n int) int { return vRF.Choices[name] }
func vAssume(c bool) {
	if !c {
		panic(vAssumeFailed{})
	}
}
func vAssert(c bool, msg string) {
	if !c {
		panic(vAssertFailed{msg})
	}
}
func vReach(label string)               {}
func vNote(key string, v interface{})   {}
func vSample(key string, v interface{}) {}
func vSummary(on bool)                  {}
func vDrawCount() int                   { return 0 }
func vDraw(i int) uint32                { return 0 }
func vDrawNIs(i int, n uint32) bool     { return true }
func vEngine() bool                     { return false }
func vOr(a, b bool) bool                { return a || b }
func vAnd(a, b bool) bool               { return a && b }
func vTainted(v interface{}) bool       { return false }
func vKnown(key string)                 {}
func vReplayDraws(from int)             {}
func vDrawN(i int) uint32               { return 0 }
func vParam(name string, def int) int {
	if v, ok := vRF.Params[name]; ok {
		return v
	}
	return def
}

func vRunMain(argv []string, file string) (string, string, int) {
	bin := os.Getenv("GOSYM_OPGEN_BIN")
	args := append([]string(nil), argv[1:]...)
	if file != "" {
		dir, _ := os.MkdirTemp("", "gosym-opgen-")
		defer os.RemoveAll(dir)
		p := filepath.Join(dir, "words.txt")
		os.WriteFile(p, []byte(file), 0o644)
		for i, a := range args {
			args[i] = strings.Replace(a, "@FILE@", p, 1)
		}
	}
	cmd := exec.Command(bin, args...)
	var out, errb bytes.Buffer
	cmd.Stdout, cmd.Stderr = &out, &errb
	err := cmd.Run()
	code := 0
	if err != nil {
		if ee, ok := err.(*exec.ExitError); ok {
			code = ee.ExitCode()
		} else {
			code = -1
		}
	}
	return out.String(), errb.String(), code
}

func TestVerifReplay(t *testing.T) {
	path := os.Getenv("GOSYM_REPLAY")
	if path == "" {
		t.Skip("no replay file")
	}
	b, err := os.ReadFile(path)
	if err != nil {
		t.Fatal(err)
	}
	if err := json.Unmarshal(b, &vRF); err != nil {
		t.Fatal(err)
	}
	h, ok := verifHarnesses[vRF.Harness]
	if !ok {
		fmt.Printf("REPLAY-RESULT: error: unknown harness %s\n", vRF.Harness)
		return
	}
	result := "passed"
	func() {
		defer func() {
			if r := recover(); r != nil {
				switch x := r.(type) {
				case vAssertFailed:
					result = "assert-failed: " + x.msg
				case vAssumeFailed:
					result = "assume-failed"
				default:
					result = fmt.Sprintf("panic: %v", r)
				}
			}
		}()
		h()
	}()
	fmt.Printf("REPLAY-RESULT: %s\n", result)
}
func vCoinScript(mode, free int)       {}
