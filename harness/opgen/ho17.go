package main

import (
	"fmt"
	"math"
	"strconv"
	"strings"

	"go.1password.io/spg"
)

// C17 — the opgen CLI is faithful to the library recipe its flags describe.
// The reference tables below are typed from the usage text, not taken from the
// program's own maps.

var ho17ClassNames = map[string]spg.CTFlag{
	"uppercase": spg.Uppers, "lowercase": spg.Lowers, "digits": spg.Digits, "symbols": spg.Symbols, "ambiguous": spg.Ambiguous,
}

// class lists as typed on the command line, with the flags they denote
var ho17ClassLists = []string{"", "digits", "uppercase,lowercase", "lowercase, digits, symbols", "digits,bogus", "uppercase, digits, symbols", "ambiguous", "ambiguous, digits , symbols"}

func ho17Classes(v string, def spg.CTFlag) spg.CTFlag {
	if v == "" {
		return def
	}
	var f spg.CTFlag
	for _, n := range strings.Split(v, ",") {
		f |= ho17ClassNames[strings.TrimSpace(n)]
	}
	return f
}

var ho17Separators = []string{"", "hyphen", "space", "comma", "period", "underscore", "digit", "none", "bogus"}
var ho17SepChars = map[string]string{"": "-", "hyphen": "-", "space": " ", "comma": ",", "period": ".", "underscore": "_", "none": "", "bogus": ""}
var ho17Schemes = []string{"", "none", "first", "all", "random", "one", "bogus"}
var ho17Files = []string{"", "uno dos tres\n", "uno\ndos\nuno\ntres\n", "solo", "@long-line@", "Polish polish uno\n", "polish Polish 4ever\n", "100% %d a%sb\n"}

// ho17File: the content of word file i; the last one is a 12 000-word list kept
// on one line of more than 64 KiB, followed by a short line.
func ho17File(i int) string {
	f := ho17Files[i]
	if f != "@long-line@" {
		return f
	}
	parts := make([]string, 12000)
	for k := range parts {
		parts[k] = fmt.Sprintf("w%dx", k)
	}
	return strings.Join(parts, " ") + "\nlast line\n"
}

// ho17Entropy: log2 of the exact number of passwords of a class-only recipe,
// computed independently of the library (inclusion-exclusion over the required
// classes, which are pairwise disjoint, in the log domain).
func ho17Entropy(ref *spg.CharRecipe, length int) float64 {
	size := func(f spg.CTFlag) int {
		r := spg.CharRecipe{Length: 1, Allow: f, Exclude: ref.Exclude}
		return len(strings.Split(r.Alphabet(), "")) * b2i(r.Alphabet() != "")
	}
	a := len(strings.Split(ref.Alphabet(), ""))
	var req []int
	for _, f := range []spg.CTFlag{spg.Uppers, spg.Lowers, spg.Digits, spg.Symbols, spg.Ambiguous} {
		if ref.Require&f != 0 {
			if n := size(f); n > 0 {
				req = append(req, n)
			}
		}
	}
	sum := 0.0
	for s := 0; s < 1<<uint(len(req)); s++ {
		removed, bits := 0, 0
		for i, n := range req {
			if s&(1<<uint(i)) != 0 {
				removed += n
				bits++
			}
		}
		term := math.Pow(float64(a-removed)/float64(a), float64(length))
		if bits%2 == 1 {
			sum -= term
		} else {
			sum += term
		}
	}
	return float64(length)*math.Log2(float64(a)) + math.Log2(sum)
}

func b2i(b bool) int {
	if b {
		return 1
	}
	return 0
}

func ho17Validate(stdout string, want func(pw string) bool, what string) {
	vAssert(strings.HasSuffix(stdout, "\n") && strings.Count(stdout, "\n") == 1, "opgen does not print exactly one line on standard output")
	vAssert(want(strings.TrimSuffix(stdout, "\n")), what)
}

// HO17c: opgen characters ...
func HO17c() {
	savedT, savedF := spg.MaxTrials, spg.MaxFailRate
	defer func() { spg.MaxTrials, spg.MaxFailRate = savedT, savedF }()
	if vEngine() {
		// keep the retry loop short in the engine (the retry budget is C13's subject)
		spg.MaxTrials, spg.MaxFailRate = 2, 1.0
	}
	argv := []string{"opgen", "characters"}
	length := 20 // documented default
	switch vChoice("length", vParam("lengths", 3)) {
	case 0:
		argv, length = append(argv, "--length=1"), 1
	case 1:
		argv, length = append(argv, "--length", "8"), 8
	case 3:
		argv, length = append(argv, "--length=200"), 200 // counts beyond float64 range
	}
	nl := vParam("classlists", len(ho17ClassLists))
	allow, require, exclude := ho17ClassLists[vChoice("allow", nl)], ho17ClassLists[vChoice("require", nl)], ho17ClassLists[vChoice("exclude", nl)]
	if allow != "" {
		argv = append(argv, "--allow="+allow)
	}
	if require != "" {
		argv = append(argv, "--require", require)
	}
	if exclude != "" {
		argv = append(argv, "-exclude="+exclude)
	}
	entropy := vChoice("entropy", 2) == 1
	if length > 100 && !entropy && vEngine() {
		return // 200 symbolic draws: entropy only
	}
	if entropy {
		argv = append(argv, "--entropy")
	}
	vSample("argv", strings.Join(argv, " "))
	// the library recipe the documentation describes
	ref := spg.NewCharRecipe(length)
	ref.Allow = ho17Classes(allow, spg.Uppers|spg.Lowers|spg.Digits|spg.Symbols)
	ref.Require = ho17Classes(require, 0)
	ref.Exclude = ho17Classes(exclude, spg.Ambiguous)

	vSummary(true)
	stdout, _, exit := vRunMain(argv, "")
	vReach("ran")
	if entropy {
		vAssert(exit == 0, "opgen --entropy does not exit 0")
		if ref.Alphabet() == "" {
			// not a recipe the library can honour: outside the one-line clause
			vReach("entropy-of-impossible-recipe")
			return
		}
		ho17Validate(stdout, func(s string) bool { return s == fmt.Sprintf("%.2f", ref.Entropy()) }, "opgen --entropy does not print the library recipe's entropy to two decimals")
		// and that number is the recipe's entropy: the Ambiguous class overlaps the
		// others, so the independent count is used when it is not required
		if ref.Require&spg.Ambiguous == 0 {
			got, _ := strconv.ParseFloat(strings.TrimSpace(stdout), 64)
			want := ho17Entropy(ref, length)
			if want > 0 && !math.IsInf(want, 0) {
				vAssert(math.Abs(got-want) <= 0.011+want*1e-5, "the entropy opgen prints is not log2 of the number of passwords the recipe admits")
			}
		}
		vReach("entropy")
		return
	}
	d1 := vDrawCount()
	vReplayDraws(0) // the reference recipe runs on the same draws
	rp, rerr := ref.Generate()
	d2 := vDrawCount()
	if vEngine() {
		vAssert(d2-d1 == d1, "opgen's generator makes a different number of draws than the library recipe its flags describe")
		for k := 0; k < d1 && k < d2-d1; k++ {
			vAssert(vDrawNIs(d1+k, vDrawN(k)), "opgen's generator draws from a different range than the library recipe its flags describe")
		}
		if rerr != nil {
			vAssert(exit == 1, "a recipe the library refuses does not exit with status 1")
			vAssert(!vTainted(stdout), "opgen prints a password although the library refused the recipe")
			vReach("refused")
			return
		}
		vAssert(exit == 0, "opgen fails although the library honours the recipe")
		vAssert(stdout == rp.String()+"\n", "opgen's output is not the password of the library recipe its flags describe (on the same random draws)")
		vReach("password")
		return
	}
	// natively the draws are not observable: validate the printed password
	if rerr != nil {
		vAssert(exit == 1, "a recipe the library refuses does not exit with status 1")
		return
	}
	vAssert(exit == 0, "opgen fails although the library honours the recipe")
	alpha := ref.Alphabet()
	ho17Validate(stdout, func(pw string) bool {
		cs := strings.Split(pw, "")
		if len(cs) != length {
			return false
		}
		for _, c := range cs {
			if !strings.Contains(alpha, c) {
				return false
			}
		}
		for name, f := range ho17ClassNames {
			_ = name
			if ref.Require&f != 0 {
				cls := spg.CharRecipe{Length: 1, Allow: f, Exclude: ref.Exclude}
				if ca := cls.Alphabet(); ca != "" && !strings.ContainsAny(pw, ca) {
					return false
				}
			}
		}
		return true
	}, "opgen's password does not satisfy the library recipe its flags describe")
}

// HO17w: opgen words ...
func HO17w() {
	argv := []string{"opgen", "words"}
	size := 4
	switch vChoice("size", 3) {
	case 1:
		argv, size = append(argv, "--size=1"), 1
	case 2:
		argv, size = append(argv, "--size", "3"), 3
	}
	file := ho17File(vChoice("file", vParam("files", len(ho17Files))))
	listName := ""
	var words []string
	if file != "" {
		argv = append(argv, "--file=@FILE@")
		words = strings.Fields(file)
	} else {
		switch vChoice("list", 4) {
		case 0:
			words = spg.AgileWords
		case 1:
			listName, words = "words", spg.AgileWords
		case 2:
			listName, words = "syllables", spg.AgileSyllables
		case 3:
			listName = "klingon"
		}
		if listName != "" {
			argv = append(argv, "--list="+listName)
		}
	}
	sep := ho17Separators[vChoice("separator", vParam("separators", len(ho17Separators)))]
	if sep != "" {
		argv = append(argv, "--separator="+sep)
	}
	scheme := ho17Schemes[vChoice("capitalize", vParam("schemes", len(ho17Schemes)))]
	if scheme != "" {
		argv = append(argv, "--capitalize", scheme)
	}
	entropy := vChoice("entropy", 2) == 1
	if (file == "" || len(words) > 50) && listName != "klingon" && !entropy && vEngine() {
		// generation from the 18 328-word shipped lists with symbolic draws is
		// outside the engine's reach (a selection term over every word); the
		// shipped lists are covered by --entropy here, by C16 (content) and by
		// C04 (generation for every list size through the draw bound)
		vReach("builtin-list-generation-skipped")
		return
	}
	if entropy {
		argv = append(argv, "--entropy")
	}
	vSample("argv", strings.Join(argv, " "))
	hasDup := false
	for i := range words {
		for j := 0; j < i && len(words) < 50; j++ {
			if words[i] == words[j] {
				hasDup = true
			}
		}
	}
	if hasDup {
		vKnown("file-with-duplicate-words")
	}

	vSummary(true)
	stdout, _, exit := vRunMain(argv, file)
	vReach("ran")
	if listName == "klingon" {
		vAssert(exit == 2, "an unknown list does not exit with status 2")
		vAssert(!vTainted(stdout), "a password is printed for an unknown list")
		vReach("unknown-list")
		return
	}
	// the library recipe the documentation describes
	wl, werr := spg.NewWordList(words)
	vAssume(werr == nil)
	ref := spg.NewWLRecipe(size, wl)
	switch sep {
	case "digit":
		ref.SeparatorFunc = spg.SFDigits1
	case "bogus":
		// an unknown separator class is not documented; the program uses none
	default:
		ref.SeparatorChar = ho17SepChars[sep]
	}
	switch scheme {
	case "", "none", "bogus":
		ref.Capitalize = spg.CSNone
	default:
		ref.Capitalize = spg.CapScheme(scheme)
	}
	if entropy {
		vAssert(exit == 0, "opgen --entropy does not exit 0")
		ho17Validate(stdout, func(s string) bool { return s == fmt.Sprintf("%.2f", ref.Entropy()) }, "opgen --entropy does not print the library recipe's entropy to two decimals")
		if file != "" && len(words) < 50 {
			// and that number is what the documentation says, computed from the file itself
			var kept []string
			allCap := true
			for _, w := range words {
				dup, twin := false, false
				for _, k := range kept {
					if k == w {
						dup = true
					}
				}
				for _, u := range words {
					if u != w && strings.Title(u) == w {
						twin = true
					}
				}
				if !dup && !twin {
					kept = append(kept, w)
					if strings.Title(w) == w {
						allCap = false
					}
				}
			}
			want := float64(size) * math.Log2(float64(len(kept)))
			if allCap {
				switch scheme {
				case "random":
					want += float64(size)
				case "one":
					want += math.Log2(float64(size))
				}
			}
			if sep == "digit" {
				want += float64(size-1) * math.Log2(10)
			}
			got, _ := strconv.ParseFloat(strings.TrimSpace(stdout), 64)
			vAssert(math.Abs(got-want) <= 0.011, "the entropy opgen prints for a word file is not size*log2(distinct words without capitalised twins) plus the documented terms")
		}
		vReach("entropy")
		return
	}
	if vEngine() {
		d1 := vDrawCount()
		vReplayDraws(0) // the reference recipe runs on the same draws
		rp, rerr := ref.Generate()
		d2 := vDrawCount()
		vAssume(rerr == nil)
		vAssert(d2-d1 == d1, "opgen's generator makes a different number of draws than the library recipe its flags describe")
		for k := 0; k < d1 && k < d2-d1; k++ {
			vAssert(vDrawNIs(d1+k, vDrawN(k)), "opgen's generator draws from a different range than the library recipe its flags describe")
		}
		vAssert(exit == 0, "opgen fails although the library honours the recipe")
		vAssert(stdout == rp.String()+"\n", "opgen's output is not the password of the library recipe its flags describe (on the same random draws)")
		vReach("password")
		return
	}
	vAssert(exit == 0, "opgen fails although the library honours the recipe")
	ho17Validate(stdout, func(pw string) bool {
		if ref.SeparatorFunc == nil && ref.SeparatorChar != "" && len(words) < 50 {
			parts := strings.Split(pw, ref.SeparatorChar)
			if len(parts) != size {
				return false
			}
			for _, p := range parts {
				ok := false
				for _, w := range words {
					if p == w || p == strings.Title(w) {
						ok = true
					}
				}
				if !ok {
					return false
				}
			}
		}
		return len(pw) > 0
	}, "opgen's password is not made of the right number of list words and separators")
}

// HO17u: usage errors.
func HO17u() {
	cases := [][]string{
		{"opgen"},
		{"opgen", "pin"},
		{"opgen", "recipe", "memorable"},
		{"opgen", "characters", "--bogus"},
		{"opgen", "words", "--lenght=3"},
		{"opgen", "characters", "--length=abc"},
		{"opgen", "words", "--list"},
	}
	argv := cases[vChoice("case", len(cases))]
	vSample("argv", strings.Join(argv, " "))
	vSummary(true)
	stdout, _, exit := vRunMain(argv, "")
	vAssert(exit == 2, "a missing or unknown subcommand or flag does not exit with status 2")
	if vEngine() {
		vAssert(!vTainted(stdout) && vDrawCount() == 0, "a password is generated or printed for a usage error")
	} else {
		vAssert(!strings.Contains(stdout, "-") || strings.Contains(stdout, "opgen"), "something other than the usage text is printed for a usage error")
	}
	vReach("usage")
}
