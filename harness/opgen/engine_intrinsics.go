package main

// Declarations of the harness intrinsics (see harness/spg/engine_intrinsics.go).

func vU8(name string) uint8
func vInt(name string) int
func vLen(name string, lo, hi int) int
func vChoice(name string, n int) int
func vAssume(c bool)
func vAssert(c bool, msg string)
func vReach(label string)
func vNote(key string, v interface{})
func vSample(key string, v interface{})
func vSummary(on bool)
func vDrawCount() int
func vDraw(i int) uint32
func vDrawNIs(i int, n uint32) bool
func vParam(name string, def int) int
func vEngine() bool
func vOr(a, b bool) bool
func vAnd(a, b bool) bool
func vTainted(v interface{}) bool
func vKnown(key string)

// vRunMain runs the program: in the engine main() is executed from its SSA with
// os.Args = argv (file reads return file); natively the built binary is run.
func vRunMain(argv []string, file string) (stdout string, stderr string, exit int)
func vReplayDraws(from int)
func vDrawN(i int) uint32
func vCoinScript(mode, free int)
