package spg

import (
	"fmt"
	"strings"
)

// HSelf: translator validation. The library is run on fixed vectors (the
// repository's own test vectors and a few more); every result is recorded with
// vNote. `gosym selftest` executes this harness in the engine and natively and
// requires identical records.
func HSelf() {
	rec := func(k string, v interface{}) { vNote("self:"+k, fmt.Sprint(v)) }
	// TestTokenizer vectors
	type tv struct {
		pw  string
		idx Indices
	}
	for i, v := range []tv{
		{"correct horse battery staple", Indices{2, 7, 1, 5, 1, 7, 1, 6}},
		{"abcd", Indices{0}},
		{"correcthorse", Indices{1, 7, 5}},
		{"h3llo w0rld!", Indices{3, 5, 1, 1, 0, 6, 1}},
		{"éüñ", Indices{1, 1, 2}},
		{"short", Indices{1, 9}},
		{"x", Indices{7}},
	} {
		p, err := Tokenize(v.pw, v.idx, 3.5)
		var parts []string
		for _, t := range p.Tokens() {
			parts = append(parts, fmt.Sprintf("%s/%d", t.Value(), t.Type()))
		}
		rec(fmt.Sprintf("tokenize%d", i), strings.Join(parts, "|")+fmt.Sprint(err != nil))
		idx, e2 := p.Tokens().MakeIndices()
		rec(fmt.Sprintf("makeindices%d", i), fmt.Sprint([]byte(idx), e2 != nil, p.Tokens().Kind()))
	}
	// character recipes: alphabet, count, entropy, success probability
	for i, r := range []CharRecipe{
		{Length: 8, Allow: Letters | Digits},
		{Length: 5, Allow: Lowers, Require: Digits | Symbols},
		{Length: 12, Allow: All, Exclude: Ambiguous, Require: Digits, RequireSets: []string{"357", "xyz"}},
		{Length: 3, AllowChars: "aé✓", RequireSets: []string{"é"}},
		{Length: 4, Allow: Digits, Exclude: Ambiguous, RequireSets: []string{"0", "2"}},
		{Length: 1, Require: Digits | Uppers},
		{Length: 1000, Allow: Lowers, Require: Digits},
	} {
		rc := r
		rc.buildCharacterList()
		rec(fmt.Sprintf("alphabet%d", i), r.Alphabet())
		rec(fmt.Sprintf("count%d", i), rc.n().String())
		rec(fmt.Sprintf("entropy%d", i), r.Entropy())
		rec(fmt.Sprintf("success%d", i), r.SuccessProbability())
		ok, f := r.hasAcceptableFailRate()
		rec(fmt.Sprintf("failrate%d", i), fmt.Sprint(ok, f))
	}
	// word lists
	for i, l := range [][]string{{"Polish", "polish", "one", "two"}, {"uno", "dos", "uno"}, {"正確", "馬", "電池"}, {"jean-luc", "o'neil", "'tis"}} {
		wl, err := NewWordList(l)
		ws := append([]string(nil), wl.words...)
		// order is map-dependent natively: record as a sorted set
		for a := range ws {
			for b := a + 1; b < len(ws); b++ {
				if ws[b] < ws[a] {
					ws[a], ws[b] = ws[b], ws[a]
				}
			}
		}
		rec(fmt.Sprintf("wordlist%d", i), fmt.Sprint(ws, wl.Size(), wl.unCapitalizableCount, err != nil))
		for _, sch := range []CapScheme{CSNone, CSOne, CSRandom} {
			r := NewWLRecipe(4, wl)
			r.Capitalize = sch
			rec(fmt.Sprintf("wlentropy%d%s", i, sch), r.Entropy())
		}
	}
	// set helpers
	rec("subtract", len(subtractString("abcdef", "bdf")))
	rec("setfromstring", setFromString("aabbé").Cardinality())
	rec("filter", fmt.Sprint(requireFilter("abc1", reqSets{*newReqSet("0123", "d")}), requireFilter("abc", reqSets{*newReqSet("0123", "d")}), requireFilter("abc", nil)))
	rec("entropysimple", entropySimple(10, 62))
	rec("titles", strings.Title("hello wORLD-foo o'neil 42nd _x")+strings.ToUpper("aé")+strings.ToLower("AÉ"))
	vReach("self")
}
