package spg

// Native confirmation for C14 (replay build only): the shared values of H14 are
// used from 8 goroutines under the race detector, and every result is
// validated. The random source is a goroutine-safe counter generator (so the
// only races the detector can see are the library's).

import (
	crand "crypto/rand"
	"fmt"
	"io"
	"math"
	"os"
	"strings"
	"sync"
	"sync/atomic"
	"testing"
)

type vAtomicReader struct{ ctr uint64 }

func (r *vAtomicReader) Read(b []byte) (int, error) {
	for i := range b {
		x := atomic.AddUint64(&r.ctr, 0x9E3779B97F4A7C15)
		x ^= x >> 29
		x *= 0xBF58476D1CE4E5B9
		x ^= x >> 32
		b[i] = byte(x)
	}
	return len(b), nil
}

func TestVerifRace(t *testing.T) {
	if os.Getenv("GOSYM_RACE") == "" {
		t.Skip("not a race confirmation run")
	}
	saved := crand.Reader
	crand.Reader = io.Reader(&vAtomicReader{})
	defer func() { crand.Reader = saved }()
	// expectations come from a separate, identical set of values: the shared ones
	// must meet their first use under concurrency
	ref := h14Setup()
	sfAlpha, sfReqs, _ := h02Ref(ref.sfRec)
	wrEnt := ref.wr.Entropy()
	words := append([]string(nil), ref.wl.words...)
	var bad int64
	var firstBad atomic.Value
	fail := func(format string, a ...interface{}) {
		if atomic.AddInt64(&bad, 1) == 1 {
			firstBad.Store(fmt.Sprintf(format, a...))
		}
	}
	validChars := func(pw string, alpha []string, reqs [][]string, n int) bool {
		cs := strings.Split(pw, "")
		if len(cs) != n {
			return false
		}
		for _, c := range cs {
			if !h02Has(alpha, c) {
				return false
			}
		}
		for _, q := range reqs {
			hit := false
			for _, c := range cs {
				if h02Has(q, c) {
					hit = true
				}
			}
			if !hit {
				return false
			}
		}
		return true
	}
	// R rounds, each on freshly built shared values, the goroutines released
	// together: lazily initialised state is initialised under contention R times
	const R, G, N = 24, 8, 60
	for round := 0; round < R; round++ {
		s := h14Setup()
		// the character recipe differs from round to round by one allowed
		// character: state the library keeps per character settings (a cache
		// entry, a lazily sorted alphabet) meets its first use under contention
		// in every round, not only in the first one of the process
		s.cr.AllowChars += string([]rune("αβγδεζηθικλμνξοπρστυφχψω")[round%24])
		crAlpha, crReqs, _ := h02Ref(s.cr)
		var crEntBits uint32 // the first Entropy value seen in this round; all must agree
		sameEnt := func(e float32) bool {
			b := math.Float32bits(e) | 1<<31
			return atomic.CompareAndSwapUint32(&crEntBits, 0, b) || atomic.LoadUint32(&crEntBits) == b
		}
		start := make(chan struct{})
		var wg sync.WaitGroup
		for g := 0; g < G; g++ {
			wg.Add(1)
			go func(g int) {
				defer wg.Done()
				<-start
				for i := 0; i < N; i++ {
					switch (g + i) % 5 {
					case 0:
						p, err := s.cr.Generate()
						if err == nil && (!validChars(p.String(), crAlpha, crReqs, s.cr.Length) || !sameEnt(float32(p.Entropy))) {
							fail("character password %q does not satisfy its recipe under concurrency", p.String())
						}
					case 1:
						if !sameEnt(float32(s.cr.Entropy())) || s.cr.Alphabet() != strings.Join(crAlpha, "") {
							fail("Entropy()/Alphabet() changed under concurrency")
						}
						s.cr.SuccessProbability()
					case 2:
						p, err := s.wr.Generate()
						if err != nil {
							fail("WLRecipe.Generate failed under concurrency: %v", err)
							break
						}
						atoms, seps := p.Tokens().Atoms(), p.Tokens().Separators()
						if len(atoms) != s.wr.Length || p.Entropy != wrEnt {
							fail("wordlist password %q has the wrong shape or entropy under concurrency", p.String())
						}
						for _, a := range atoms {
							if !h02Has(words, a) && !h02Has(words, strings.ToLower(a[:1])+a[1:]) {
								fail("atom %q is not a word of the list", a)
							}
						}
						for _, sp := range seps {
							if !validChars(sp, sfAlpha, sfReqs, s.sfRec.Length) {
								fail("separator %q does not satisfy the separator recipe under concurrency", sp)
							}
						}
					case 3:
						sp, _ := s.sf()
						if sp != "" && !validChars(sp, sfAlpha, sfReqs, s.sfRec.Length) {
							fail("separator %q does not satisfy the separator recipe under concurrency", sp)
						}
					case 4:
						for k, f := range h16Presets {
							sp, _ := f.f()
							if f.n > 0 && (len(strings.Split(sp, "")) != f.n || !strings.ContainsAny(f.set, sp[:1])) {
								fail("preset %d returned %q under concurrency", k, sp)
							}
						}
						s.wr.Entropy()
						s.wl.Size()
						pr := NewWLRecipe(3, s.wl)
						pr.SeparatorFunc = SFDigits1
						if pp, err := pr.Generate(); err != nil || len(pp.Tokens().Separators()) != 2 {
							fail("a recipe separated by SFDigits1 lost separators under concurrency")
						}
					}
				}
			}(g)
		}
		close(start)
		wg.Wait()
	}
	if bad > 0 {
		fmt.Printf("RACE-RESULT: invalid: %d results failed validation, first: %v\n", bad, firstBad.Load())
		t.Fail()
		return
	}
	fmt.Printf("RACE-RESULT: clean (%d rounds x %d goroutines x %d calls)\n", R, G, N)
}
