package spg

// Declarations of the harness intrinsics for the symbolic executor. The engine
// intercepts these by name; their bodies exist only in the native replay build
// (native_intrinsics.go).

func vU8(name string) uint8
func vU16(name string) uint16
func vU32(name string) uint32
func vU64(name string) uint64
func vInt(name string) int
func vBool(name string) bool
func vBytes(name string, n int) []byte
func vStr(name string, n int) string
func vLen(name string, lo, hi int) int
func vChoice(name string, n int) int
func vAssume(c bool)
func vAssert(c bool, msg string)
func vReach(label string)
func vNote(key string, v interface{})
func vSample(key string, v interface{})
func vTry(f func()) bool
func vPanicMsg() string
func vSummary(on bool)
func vDrawCount() int
func vDraw(i int) uint32
func vDrawNIs(i int, n uint32) bool
func vReads() int
func vTapeLen() int
func vTapeByte(i int) byte
func vTapeScript(w0, w1 uint32)
func vTapeScriptEnd()
func vFaultAt(k, n int)
func vFaultHit() bool
func vShortReads(on bool)
func vOrderChoice(on bool)
func vBeginCall()
func vEndCall()
func vSharedWrites() int
func vOutputs() int
func vTaintedOutputs() int
func vOutputText(i int) string
func vTainted(v interface{}) bool
func vKnown(key string)
func vUseInt(on bool)
func vParam(name string, def int) int
func vEngine() bool
func vOr(a, b bool) bool
func vAnd(a, b bool) bool
func vTapeRewind()
func vDrawN(i int) uint32
func vSecret(s string)
func vSharedWriteText(i int) string
func vReplayDraws(from int)
func vDrawLimit(n int, msg string)
func vCoinScript(mode, free int)
