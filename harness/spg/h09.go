package spg

// C09 — all randomness from the OS CSPRNG; fail closed. Tape mode: the real
// kernel runs on symbolic source bytes; the read at which the source fails and
// the number of bytes it delivers are harness choices over every position.

// h09Recipe builds one of the five recipes once; the same value is then used
// for every Generate call of a harness run.
func h09Recipe(kind int) (Generator, int) {
	switch kind {
	case 0:
		return CharRecipe{Length: 2, Allow: Digits}, 2
	case 1:
		return CharRecipe{Length: 1, AllowChars: "ab", RequireSets: []string{"a"}}, 1
	case 2:
		wl, _ := NewWordList([]string{"uno", "dos", "tres"})
		r := NewWLRecipe(2, wl)
		r.Capitalize = CSOne
		r.SeparatorFunc = SFDigits1
		return r, 4
	case 3:
		wl, _ := NewWordList([]string{"uno", "dos"})
		r := NewWLRecipe(2, wl)
		r.Capitalize = CSRandom
		r.SeparatorChar = "-"
		return r, 4
	default:
		wl, _ := NewWordList([]string{"uno", "dos", "tres"})
		r := NewWLRecipe(3, wl)
		r.SeparatorFunc = NewSFFunction(CharRecipe{Length: 1, AllowChars: "xyz"})
		return r, 5
	}
}

func h09Generate(kind int) (p *Password, err error, expectReadsMin int) {
	g, n := h09Recipe(kind)
	p, err = g.Generate()
	return p, err, n
}

// H09: a failure (error with 0..3 bytes delivered) at every read position.
func H09() {
	kind := vChoice("recipe", vParam("recipes", 5))
	savedT, savedF := MaxTrials, MaxFailRate
	defer func() { MaxTrials, MaxFailRate = savedT, savedF }()
	MaxTrials, MaxFailRate = 2, 1.0
	f := vLen("fault-read", 0, vParam("reads", 7))
	j := vLen("fault-bytes", 0, 3)
	vFaultAt(f, j)
	var p *Password
	var err error
	panicked := vTry(func() { p, err, _ = h09Generate(kind) })
	vReach("returned")
	if vFaultHit() {
		vReach("fault-hit")
		vAssert(panicked || err != nil, "generation did not abort although the random source failed")
		vAssert(p == nil, "a password was returned although a read of the random source failed")
	} else {
		vAssert(!panicked, "generation panicked without a source failure")
		vReach("no-fault")
	}
	// every successful read delivered exactly four fresh bytes
	vSample("reads", vReads())
}

// H09s: a source that delivers short (but successful) reads. The library must
// still build every random word from four fresh bytes (io.ReadFull semantics
// of crypto/rand.Read) - a bare Reader.Read would see partially filled buffers.
func H09s() {
	kind := vChoice("recipe", vParam("recipes", 5))
	savedT, savedF := MaxTrials, MaxFailRate
	defer func() { MaxTrials, MaxFailRate = savedT, savedF }()
	MaxTrials, MaxFailRate = 2, 1.0
	vShortReads(true)
	var p *Password
	var err error
	minReads := 0
	panicked := vTry(func() { p, err, minReads = h09Generate(kind) })
	vAssert(!panicked, "generation panicked without a source failure")
	vReach("returned")
	if p != nil && err == nil {
		// every random word is four fresh source bytes, however many Read calls it
		// takes to get them (io.ReadFull semantics): the bytes consumed are a whole
		// number of words, at least one per choice
		vAssert(vTapeLen() >= 4*minReads, "fewer random words were read than the recipe has choices")
		vAssert(vTapeLen()%4 == 0, "a random word was built from fewer than four fresh source bytes (short read accepted)")
		vReach("generated")
	}
}

// H09d: determinism — the same recipe on the same source bytes makes the same
// choices. Two runs of Generate on one tape are compared token by token. In the
// engine the second run re-reads the recorded tape; natively the scripted reader
// is rewound.
func H09d() {
	kind := vChoice("recipe", vParam("recipes", 5))
	savedT, savedF := MaxTrials, MaxFailRate
	defer func() { MaxTrials, MaxFailRate = savedT, savedF }()
	MaxTrials, MaxFailRate = 2, 1.0
	g, _ := h09Recipe(kind)
	p1, err1 := g.Generate()
	n1 := vTapeLen()
	vTapeRewind()
	p2, err2 := g.Generate()
	vAssert((err1 == nil) == (err2 == nil), "the same source bytes gave an error once and a password once")
	vAssert(vTapeLen() == n1, "the same recipe consumed a different number of source bytes on the same stream")
	if err1 == nil && err2 == nil {
		vAssert(p1.String() == p2.String(), "the same recipe fed the same source bytes made different choices")
		vReach("same")
	}
}
