package spg

// Native bodies of the harness intrinsics (replay build only; compiled as a
// _test.go file of package spg through `go test -overlay`). The values come
// from the replay file named by $GOSYM_REPLAY; crypto/rand.Reader is swapped
// for the scripted tape.

import (
	"bytes"
	crand "crypto/rand"
	"encoding/hex"
	"encoding/json"
	"errors"
	"fmt"
	"io"
	"log"
	"os"
	"strings"
	"testing"
)

type vReplayFile struct {
	Property string            `json:"property"`
	Harness  string            `json:"harness"`
	Values   map[string]uint64 `json:"values"`
	Bytes    map[string]string `json:"bytes"`
	Choices  map[string]int    `json:"choices"`
	Tape     string            `json:"tape"`
	Fault    *struct {
		Read int `json:"read"`
		N    int `json:"n"`
	} `json:"fault"`
	ReadLens []int          `json:"read_lens"`
	Repeat   int            `json:"repeat"`
	Params   map[string]int `json:"params"`
	Expect   string         `json:"expect"`
}

type vAssertFailed struct{ msg string }
type vAssumeFailed struct{}

var (
	vRF       vReplayFile
	vTapeB    []byte
	vTapePos  int
	vReadCnt  int
	vFaultRd  = -1
	vFaultN   int
	vFaultWas bool
	vLastPan  string
	vOutBuf   bytes.Buffer
	vLogBuf   bytes.Buffer
	vOrigOut  *os.File
	vOrigErr  *os.File
	vOutR     *os.File
	vErrR     *os.File
	vPadded   int
)

type vScriptedReader struct{}

func (vScriptedReader) Read(b []byte) (int, error) {
	idx := vReadCnt
	vReadCnt++
	if idx == vFaultRd {
		vFaultWas = true
		n := vFaultN
		if n > len(b) {
			n = len(b)
		}
		for i := 0; i < n; i++ {
			b[i] = vNextTapeByte()
		}
		return n, errors.New("injected random source failure")
	}
	n := len(b)
	if vShort && idx < len(vRF.ReadLens) && vRF.ReadLens[idx] < n {
		n = vRF.ReadLens[idx] // a legal short read with a nil error
	}
	for i := 0; i < n; i++ {
		b[i] = vNextTapeByte()
	}
	return n, nil
}

var vShort bool

// vTapeScript fixes the next eight source bytes (two probe words); natively the
// replay tape already carries them at this position, they are written again so
// that a hand-edited tape cannot disagree with the harness.
var vScript []byte

func vTapeScript(w0, w1 uint32) {
	vScript = []byte{byte(w0 >> 24), byte(w0 >> 16), byte(w0 >> 8), byte(w0), byte(w1 >> 24), byte(w1 >> 16), byte(w1 >> 8), byte(w1)}
}
func vTapeScriptEnd() { vScript = nil }

func vNextTapeByte() byte {
	if len(vScript) > 0 {
		c := vScript[0]
		vScript = vScript[1:]
		if vTapePos < len(vTapeB) {
			vTapeB[vTapePos] = c
		} else if vTapePos == len(vTapeB) {
			vTapeB = append(vTapeB, c)
		}
		vTapePos++
		return c
	}
	if vTapePos < len(vTapeB) {
		c := vTapeB[vTapePos]
		vTapePos++
		return c
	}
	// beyond the scripted tape: zeros (counted, reported)
	vPadded++
	vTapePos++
	return 0
}

func vValue(name string) uint64 {
	v, ok := vRF.Values[name]
	if !ok {
		vSayf("REPLAY-NOTE: no value for %q in the replay file, using 0\n", name)
	}
	return v
}

func vU8(name string) uint8   { return uint8(vValue(name)) }
func vU16(name string) uint16 { return uint16(vValue(name)) }
func vU32(name string) uint32 { return uint32(vValue(name)) }
func vU64(name string) uint64 { return vValue(name) }
func vInt(name string) int    { return int(int64(vValue(name))) }
func vBool(name string) bool  { return vValue(name) != 0 }

func vBytes(name string, n int) []byte {
	b, _ := hex.DecodeString(vRF.Bytes[name])
	out := make([]byte, n)
	copy(out, b)
	return out
}

func vStr(name string, n int) string { return string(vBytes(name, n)) }

func vLen(name string, lo, hi int) int {
	v, ok := vRF.Choices[name]
	if !ok {
		vSayf("REPLAY-NOTE: no choice for %q, using %d\n", name, lo)
		return lo
	}
	return v
}

func vChoice(name string, n int) int {
	return vRF.Choices[name]
}

func vAssume(c bool) {
	if !c {
		panic(vAssumeFailed{})
	}
}

func vAssert(c bool, msg string) {
	if !c {
		panic(vAssertFailed{msg})
	}
}

func vReach(label string) {}
func vNote(key string, v interface{}) {
	if strings.HasPrefix(key, "self:") {
		vSayf("REPLAY-SELF: %s=%v\n", strings.TrimPrefix(key, "self:"), v)
	}
}
func vSample(key string, v interface{}) {}

func vTry(f func()) (panicked bool) {
	defer func() {
		if r := recover(); r != nil {
			switch r.(type) {
			case vAssertFailed, vAssumeFailed:
				panic(r)
			}
			vLastPan = fmt.Sprint(r)
			panicked = true
		}
	}()
	f()
	return false
}

func vPanicMsg() string { return vLastPan }
func vSummary(on bool)  {}

type vDrawRec struct {
	N   uint32
	Pos int // tape position when the kernel was entered
}

var verifDrawLog []vDrawRec

func vDrawCount() int { return len(verifDrawLog) }

// vDrawLimit natively: the draw observer fails the run when more than n further
// bounded draws are made.
var vDrawMax = -1
var vDrawMaxMsg string

func vDrawLimit(n int, msg string) { vDrawMax, vDrawMaxMsg = len(verifDrawLog)+n, msg }

// vDraw natively: the word at the tape position where the i-th bounded draw
// started, reduced by that draw's bound (engine-made tapes hold the accepted
// value itself there).
func vDraw(i int) uint32 {
	d := verifDrawLog[i]
	var w uint32
	for k := 0; k < 4; k++ {
		w = w<<8 | uint32(vTapeByte(d.Pos+k))
	}
	if d.N == 0 {
		return 0
	}
	return w % d.N
}
func vDrawNIs(i int, n uint32) bool {
	return i >= 0 && i < len(verifDrawLog) && verifDrawLog[i].N == n
}
func vDrawN(i int) uint32 { return verifDrawLog[i].N }
func vReads() int         { return vReadCnt }
func vTapeLen() int       { return vTapePos }
func vTapeByte(i int) byte {
	if i < len(vTapeB) {
		return vTapeB[i]
	}
	return 0
}
func vFaultAt(k, n int)    { vFaultRd, vFaultN = vReadCnt+k, n }
func vFaultHit() bool      { return vFaultWas }
func vShortReads(on bool)  { vShort = on }
func vOrderChoice(on bool) {}
func vBeginCall()          {}
func vEndCall()            {}
func vSharedWrites() int   { return 0 }

func vDrainOutputs() {
	// stdout/stderr are redirected to pipes by the test driver; collect what is there
}

func vOutputs() int {
	n := 0
	if vCaptured() != "" {
		n = len(strings.Split(strings.TrimRight(vCaptured(), "\n"), "\n"))
	}
	return n
}

func vCaptured() string {
	out := vLogBuf.String()
	for _, f := range []*os.File{vOutFile, vErrFile} {
		if f != nil {
			b, _ := os.ReadFile(f.Name())
			out += string(b)
		}
	}
	return out
}

var vOutFile, vErrFile *os.File

// vSayf writes to the real standard output (the library's output is captured).
var vRealOut = os.Stdout

func vSayf(format string, a ...interface{}) { fmt.Fprintf(vRealOut, format, a...) }

// vSecret registers a fragment that must never appear in captured output.
var vSecrets []string

func vSecret(s string) {
	if len(s) > 0 {
		vSecrets = append(vSecrets, s)
	}
}

func vSharedWriteText(i int) string { return "" }

// vTaintedOutputs natively: captured output lines that contain a registered secret.
func vTaintedOutputs() int {
	n := 0
	for _, l := range strings.Split(vCaptured(), "\n") {
		for _, s := range vSecrets {
			if strings.Contains(l, s) {
				n++
				break
			}
		}
	}
	return n
}
func vOutputText(i int) string {
	lines := strings.Split(strings.TrimRight(vCaptured(), "\n"), "\n")
	if i < len(lines) {
		return lines[i]
	}
	return ""
}
func vTainted(v interface{}) bool { return false }
func vKnown(key string)           {}
func vUseInt(on bool)             {}
func vParam(name string, def int) int {
	if v, ok := vRF.Params[name]; ok {
		return v
	}
	return def
}
func vEngine() bool { return false }

// vReplayDraws natively: rewind the scripted source to where draw `from` began.
func vReplayDraws(from int) {
	if from < len(verifDrawLog) {
		vTapePos = verifDrawLog[from].Pos
	}
}

// vTapeRewind: serve the same source bytes again from the start.
func vTapeRewind()        { vTapePos = 0 }
func vOr(a, b bool) bool  { return a || b }
func vAnd(a, b bool) bool { return a && b }

func TestVerifReplay(t *testing.T) {
	path := os.Getenv("GOSYM_REPLAY")
	if path == "" {
		t.Skip("no replay file")
	}
	b, err := os.ReadFile(path)
	if err != nil {
		t.Fatal(err)
	}
	if err := json.Unmarshal(b, &vRF); err != nil {
		t.Fatal(err)
	}
	vTapeB, _ = hex.DecodeString(vRF.Tape)
	h, ok := verifHarnesses[vRF.Harness]
	if !ok {
		vSayf("REPLAY-RESULT: error: unknown harness %s\n", vRF.Harness)
		return
	}
	saved := crand.Reader
	crand.Reader = io.Reader(vScriptedReader{})
	defer func() { crand.Reader = saved }()
	// capture everything the library writes to stdout, stderr and the process log
	origOut, origErr := os.Stdout, os.Stderr
	vOutFile, _ = os.CreateTemp("", "gosym-out-")
	vErrFile, _ = os.CreateTemp("", "gosym-err-")
	os.Stdout, os.Stderr = vOutFile, vErrFile
	defer func() {
		os.Stdout, os.Stderr = origOut, origErr
		for _, f := range []*os.File{vOutFile, vErrFile} {
			f.Close()
			os.Remove(f.Name())
		}
	}()
	say := vSayf
	log.SetOutput(&vLogBuf)
	verifDrawLog = nil
	verifDrawHook = func(n uint32) {
		if vDrawMax >= 0 && len(verifDrawLog) >= vDrawMax {
			vDrawMax = -1
			panic(vAssertFailed{vDrawMaxMsg})
		}
		verifDrawLog = append(verifDrawLog, vDrawRec{n, vTapePos})
	}
	defer func() { verifDrawHook = nil }()
	result := "passed"
	runs := vRF.Repeat
	if runs < 1 {
		// Go's map iteration order (word order of a freshly built list) is
		// random per construction: give an order-dependent counterexample a
		// fair number of chances even when the engine did not mark it as such
		runs = 40
	}
	done := 0
	for ; done < runs && result == "passed"; done++ {
		vTapePos, vReadCnt, vFaultRd, vFaultWas, vPadded = 0, 0, -1, false, 0
		verifDrawLog = nil
		vSecrets, vShort, vLastPan = nil, false, ""
		vDrawMax = -1
		vLogBuf.Reset()
		for _, f := range []*os.File{vOutFile, vErrFile} {
			if f != nil {
				f.Truncate(0)
				f.Seek(0, 0)
			}
		}
		func() {
			defer func() {
				if r := recover(); r != nil {
					switch x := r.(type) {
					case vAssertFailed:
						result = "assert-failed: " + x.msg
					case vAssumeFailed:
						result = "assume-failed"
					default:
						result = fmt.Sprintf("panic: %v", r)
					}
				}
			}()
			h()
		}()
	}
	if vRF.Repeat > 1 {
		say("REPLAY-NOTE: order-dependent counterexample, %d of up to %d runs made\n", done, runs)
	}
	if vPadded > 0 {
		say("REPLAY-NOTE: the real code read %d bytes beyond the scripted tape (served as zeros)\n", vPadded)
	}
	say("REPLAY-NOTE: reads=%d draws=%d tape_consumed=%d\n", vReadCnt, len(verifDrawLog), vTapePos)
	say("REPLAY-RESULT: %s\n", result)
}

// vCoinScript natively: nothing to do - the engine-made tape already holds the
// scripted coin values.
func vCoinScript(mode, free int) {}
