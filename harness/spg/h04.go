package spg

import "strings"

// C04 / C05 / C06(wordlist) — WLRecipe.Generate against the specified draw
// structure and token structure.

var h04Lists = [][]string{
	{"solo"},
	{"ab", "cd"},
	{"uno", "dos", "tres"},
	{"alpha", "beta", "gamma", "delta", "epsilon"},
	{"élan", "über", "naïve"},
	{"x1", "42", "ok"}, // "42" does not change under title-casing
	{"Apple", "pear"},  // a pre-capitalised word
	{"a", "bb", "ccc", "dddd", "eeeee", "ffffff", "ggggggg"},
	{"'tis", "of", "thee"},               // leading punctuation: strings.Title gives 'Tis
	{"jean-luc", "o'neil"},               // multi-part words: strings.Title capitalises every part
	{"polish", "one", "Polish", "two"},   // a capitalised twin listed after its lower-case form
	{"abc", "ÿes", "Ÿes"},                // a twin whose capital sorts after the lower-case letter
	{"µm", "Μm", "x"},                    // micro sign: its title-cased form is the Greek capital mu
	{"", "ab"},                           // contains the empty word (known finding D6)
	{"alpha", "bravo", "bravo", "delta"}, // already sorted and all lower case, with a repeated entry
	{"Polish", "four", "one", "polish"},  // strictly ascending, with a capitalised twin in front
}

var h04Schemes = []CapScheme{CSNone, CSFirst, CSAll, CSOne, CapScheme("sometimes"), CSRandom}

// separator kinds: 0..2 constant SeparatorChar, 3.. separator functions
const h04NSep = 10

var h04Counter = []string{"", "1", "2", "3", "4", "5", "6", "7", "8", "9"}

func h04Separator(kind int) (char string, sf SFFunction, rec *CharRecipe) {
	switch kind {
	case 0:
		return "", nil, nil
	case 1:
		return "-", nil, nil
	case 2:
		return "→", nil, nil
	case 3:
		return "", SFNone, nil
	case 4:
		return "", SFDigits1, &CharRecipe{Length: 1, Allow: Digits}
	case 5:
		return "", SFDigitsNoAmbiguous2, &CharRecipe{Length: 2, Allow: Digits, Exclude: Ambiguous}
	case 7:
		// a function AND a separator character: the function wins, and SFNone yields no separator
		return "-", SFNone, nil
	case 8:
		// a deterministic function that reports zero entropy but numbers the gaps
		n := 0
		return "", func() (string, FloatE) { n++; return h04Counter[n%10], 0 }, nil
	case 9:
		// a function that leaves every other gap empty
		n := 0
		return "", func() (string, FloatE) {
			n++
			if n%2 == 1 {
				return "", 0
			}
			return "+", 0
		}, nil
	default:
		r := CharRecipe{Length: 1, AllowChars: "é✓!"}
		return "", NewSFFunction(r), &r
	}
}

var h04SepKind int

func h04HasEmpty(ws []string) bool {
	for _, w := range ws {
		if w == "" {
			return true
		}
	}
	return false
}

func h04AllCapitalizable(ws []string) bool {
	for _, w := range ws {
		if strings.Title(w) == w {
			return false
		}
	}
	return true
}

func h04Recipe() (WLRecipe, *CharRecipe, []string) {
	li := vChoice("list", vParam("lists", len(h04Lists)))
	input := h04Lists[li]
	// the list is built from the caller's own slice, which the caller then
	// recycles: the word list must not alias it
	mine := append([]string(nil), input...)
	wl, err := NewWordList(mine)
	vAssume(err == nil)
	for i := range mine {
		mine[i] = "RECYCLED"
	}
	var r WLRecipe
	r.list = wl
	r.Length = vLen("length", vParam("Lmin", 1), vParam("L", 3))
	smin := vParam("schememin", 0)
	r.Capitalize = h04Schemes[smin+vChoice("scheme", vParam("schemes", len(h04Schemes))-smin)]
	sepKind := vChoice("separator", vParam("seps", h04NSep))
	char, sf, rec := h04Separator(sepKind)
	r.SeparatorChar = char
	r.SeparatorFunc = sf
	h04SepKind = sepKind
	return r, rec, input
}

// H04: one Generate call with symbolic draws.
func H04() {
	r, sepRec, input := h04Recipe()
	words := r.list.words
	for _, w := range words {
		vAssert(w != "RECYCLED", "the word list aliases the slice passed to NewWordList: it changed when the caller reused its slice")
	}
	// words are drawn from the normalised list: one copy of each distinct word, capitalised twins removed
	vAssert(h10SameSet(words, h10Kept(input)), "the list words are drawn from is not the normalised input (a duplicate or a capitalised twin is kept, or a word is lost)")
	L := r.Length
	size := len(words)
	// optionally, an earlier Generate with another scheme on the same list
	if vParam("prime", 0) == 1 && (r.Capitalize == CSNone || r.Capitalize == CapScheme("sometimes")) {
		pr := r
		pr.Capitalize = []CapScheme{CSAll, CSRandom}[vChoice("prime-scheme", 2)]
		if h04SepKind >= 8 {
			pr.SeparatorFunc = nil // keep the gap counter of the stateful test separators untouched
		}
		vSummary(true)
		pr.Generate()
		vSummary(false)
		vReach("primed")
	}
	base := vDrawCount()
	vSample("words", strings.Join(words, ","))
	vSample("scheme", string(r.Capitalize))
	if h04HasEmpty(input) {
		vKnown("wordlist-contains-empty-word")
	}
	var sepAlpha []string
	sepLen := 0
	if sepRec != nil {
		sepAlpha, _, _ = h02Ref(*sepRec)
		sepLen = sepRec.Length
	}

	vSummary(true)
	if vParam("coins", 0) == 1 && r.Capitalize == CSRandom {
		// long coin sequences: the coins take one of three concrete vectors
		// (all heads, all tails, alternating), except one coin at a word-size
		// boundary position, which stays symbolic
		free := []int{-1, 0, 31, 32, 63, 64, L - 1}[vChoice("free-coin", 7)]
		vCoinScript(1+vChoice("coin-vector", 3), free)
		vReach("scripted-coins")
	}
	var p *Password
	var err error
	panicked := vTry(func() { p, err = r.Generate() })
	vCoinScript(0, -1)
	vAssert(!panicked, "Generate panicked")
	vAssert(err == nil && p != nil, "Generate failed for a non-empty list and a positive length")
	vReach("returned")

	// ---- C04: the draw structure ----
	nd := vDrawCount()
	pos := base
	counter := 0
	capAt := make([]bool, L)
	switch r.Capitalize {
	case CSFirst:
		capAt[0] = true
	case CSAll:
		for i := range capAt {
			capAt[i] = true
		}
	case CSOne:
		vAssert(nd > pos && vDrawNIs(pos, uint32(L)), "scheme 'one': the capitalised position is not drawn uniformly from the Length positions")
		for i := range capAt {
			capAt[i] = vDraw(pos) == uint32(i)
		}
		pos++
	case CSRandom:
		for i := 0; i < L; i++ {
			vAssert(nd > pos && vDrawNIs(pos, 2), "scheme 'random': position i is not decided by its own fair coin")
			capAt[i] = vDraw(pos) == 1
			pos++
		}
	}
	var want []Token
	natoms := 0
	for i := 0; i < L; i++ {
		vAssert(nd > pos && vDrawNIs(pos, uint32(size)), "a word is not drawn uniformly from the whole normalised list")
		w := words[vDraw(pos)]
		pos++
		if capAt[i] {
			w = strings.Title(w)
			vReach("capitalised")
		}
		want = append(want, Token{w, AtomType})
		natoms++
		if i < L-1 {
			sep := r.SeparatorChar
			switch h04SepKind {
			case 7:
				sep = "" // the separator function decides, and it yields nothing
			case 8:
				counter++
				sep = h04Counter[counter%10]
			case 9:
				counter++
				sep = ""
				if counter%2 == 0 {
					sep = "+"
				}
			}
			if sepRec != nil {
				sep = ""
				for j := 0; j < sepLen; j++ {
					vAssert(nd > pos && vDrawNIs(pos, uint32(len(sepAlpha))), "a separator character is not a fresh uniform draw from the separator alphabet")
					sep += sepAlpha[vDraw(pos)]
					pos++
				}
			}
			if len(sep) > 0 {
				want = append(want, Token{sep, SeparatorType})
			}
		}
	}
	// Generate ends by asking the recipe for its entropy, which calls the
	// separator function once more; those draws must not influence the tokens
	tokenDraws := pos
	if sepRec != nil {
		pos += sepLen
	}
	vAssert(nd == pos, "the number of random draws differs from the specified one (words, capitalisation, one fresh separator per gap)")
	_ = tokenDraws

	// ---- C05: the token structure ----
	toks := p.Tokens()
	gotAtoms, gotSeps := p.Tokens().Atoms(), p.Tokens().Separators()
	vAssert(len(gotAtoms) == L, "the password does not consist of exactly Length atoms")
	vAssert(len(toks) == len(want), "the token sequence is not atom (separator atom)*: wrong number of tokens")
	pw := ""
	ai, si := 0, 0
	for i := range want {
		vAssert(toks[i].Type() == want[i].Type(), "a token has the wrong type (separators only between adjacent atoms, never leading or trailing)")
		vAssert(toks[i].Value() == want[i].Value(), "a token is not the drawn word (title-cased exactly at the selected positions) or the drawn separator")
		pw += want[i].Value()
		if want[i].Type() == AtomType {
			vAssert(ai < len(gotAtoms) && gotAtoms[ai] == want[i].Value(), "Atoms() does not return the atom values in order")
			ai++
		} else {
			vAssert(si < len(gotSeps) && gotSeps[si] == want[i].Value(), "Separators() does not return the separator values in order")
			si++
		}
	}
	vAssert(len(gotSeps) == si, "Separators() returns extra values")
	vAssert(p.String() == pw, "String() is not the concatenation of the token values")
	vAssert(toks[0].Type() == AtomType && toks[len(toks)-1].Type() == AtomType, "the password starts or ends with a separator")
	vReach("structure")

	// ---- C06 (wordlist part): the Entropy field is the recipe's entropy ----
	vAssert(p.Entropy == r.Entropy(), "Password.Entropy differs from the recipe's Entropy()")
	vSample("password", p.String())
}
