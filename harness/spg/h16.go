package spg

import (
	"math"
	"strings"
)

// C16 — built-in classes, defaults, separator presets and shipped lists are as
// documented. The expected values below are typed from the documentation
// (property text), not taken from the package's constants.

var h16Classes = []struct {
	name string
	f    CTFlag
	want string // sorted
}{
	{"Uppers", Uppers, "ABCDEFGHIJKLMNOPQRSTUVWXYZ"},
	{"Lowers", Lowers, "abcdefghijklmnopqrstuvwxyz"},
	{"Digits", Digits, "0123456789"},
	{"Symbols", Symbols, "!*-.@_"},
	{"Ambiguous", Ambiguous, "015IOSl"},
	{"Letters", Letters, "ABCDEFGHIJKLMNOPQRSTUVWXYZabcdefghijklmnopqrstuvwxyz"},
	{"All", All, "!*-.0123456789@ABCDEFGHIJKLMNOPQRSTUVWXYZ_abcdefghijklmnopqrstuvwxyz"},
}

// H16a: classes, named combinations, constructor defaults, retry budget.
func H16a() {
	// the built-ins must be what they are whatever recipes ran before in the process
	if e := vChoice("earlier-recipe", 13); e > 0 {
		vSummary(true)
		r := []CharRecipe{
			{Length: 3, Allow: Digits, AllowChars: "abcdef"},
			{Length: 3, Allow: Uppers, AllowChars: "xy"},
			{Length: 3, Allow: Lowers, ExcludeChars: "abc", AllowChars: "0"},
			{Length: 3, Allow: Symbols, AllowChars: "é"},
			{Length: 3, Allow: All, Exclude: Ambiguous, ExcludeChars: "abcxyz2346"},
			{Length: 3, Allow: Letters, Exclude: Digits, ExcludeChars: "Q"},
			{Length: 3, Allow: Lowers, RequireSets: []string{"aeiou"}},
			{Length: 3, Allow: Digits, RequireSets: []string{"13579"}},
			// class flags only, in combinations that a packed, folded or summed
			// key over (Allow, Require, Exclude) confuses with the defaults
			{Length: 3, Allow: All, Require: Uppers},
			{Length: 3, Allow: All | Ambiguous},
			{Length: 3, Allow: All, Require: Ambiguous},
			{Length: 3, Allow: Ambiguous, Exclude: All},
		}[e-1]
		// (the earlier call runs with a small retry budget; the default is
		// put back before it is checked below)
		savedT, savedF := MaxTrials, MaxFailRate
		MaxTrials, MaxFailRate = 2, 1.0
		r.Generate()
		r.Alphabet()
		MaxTrials, MaxFailRate = savedT, savedF
		vSummary(false)
		vReach("after-another-recipe")
	}
	for _, c := range h16Classes {
		r := CharRecipe{Length: 1, Allow: c.f}
		vAssert(r.Alphabet() == c.want, "a character class is not the documented set: "+c.name)
	}
	vAssert(Letters == Uppers|Lowers && All == Uppers|Lowers|Digits|Symbols && None == 0, "Letters/All/None are not the documented unions")
	vAssert(Uppers != Lowers && Uppers != Digits && Uppers != Symbols && Uppers != Ambiguous && Lowers != Digits && Lowers != Symbols && Lowers != Ambiguous && Digits != Symbols && Digits != Ambiguous && Symbols != Ambiguous, "class flags are not distinct")
	n := vLen("length", 1, 3)
	cr := NewCharRecipe(n)
	vAssert(cr.Length == n && cr.Allow == All && cr.Exclude == Ambiguous && cr.Require == None && cr.AllowChars == "" && cr.ExcludeChars == "" && len(cr.RequireSets) == 0, "NewCharRecipe does not default to everything allowed minus the ambiguous characters")
	vAssert(cr.Alphabet() == "!*-.2346789@ABCDEFGHJKLMNPQRTUVWXYZ_abcdefghijkmnopqrstuvwxyz", "NewCharRecipe's alphabet is not All minus 0O1Il5S")
	wl, _ := NewWordList([]string{"uno", "dos"})
	wr := NewWLRecipe(n, wl)
	vAssert(wr.Length == n && wr.Capitalize == CSNone && wr.SeparatorChar == "" && wr.SeparatorFunc == nil && wr.list == wl, "NewWLRecipe does not default to no capitalisation and no separator")
	vAssert(CSNone == "none" && CSFirst == "first" && CSAll == "all" && CSRandom == "random" && CSOne == "one", "capitalisation scheme names changed")
	vAssert(MaxTrials == 200, "the retry budget does not default to 200 attempts")
	vAssert(MaxFailRate == 1e-9, "the tolerated failure probability does not default to 1e-9")
	vReach("defaults")
}

var h16Presets = []struct {
	name string
	f    SFFunction
	set  string // documented alphabet, sorted
	n    int    // characters per separator
}{
	{"SFNone", SFNone, "", 0},
	{"SFDigits1", SFDigits1, "0123456789", 1},
	{"SFDigits2", SFDigits2, "0123456789", 2},
	{"SFDigitsNoAmbiguous1", SFDigitsNoAmbiguous1, "2346789", 1},
	{"SFDigitsNoAmbiguous2", SFDigitsNoAmbiguous2, "2346789", 2},
	{"SFSymbols", SFSymbols, "!*-.@_", 1},
	{"SFDigitsSymbols", SFDigitsSymbols, "!*-.0123456789@_", 1},
}

// H16p: every preset, called after any other preset, yields - for every value
// of its draws - the documented characters, one-to-one, with the matching entropy.
func H16p() {
	np := len(h16Presets)
	first := vChoice("earlier-preset", np+3) // np: none, np+1: a single-class recipe with extra characters, np+2: flag-only recipes
	second := vChoice("preset", np)
	vSummary(true)
	if first < np {
		h16Presets[first].f()
		h16Presets[first].f()
	} else if first == np+1 {
		r := CharRecipe{Length: 3, Allow: Digits, AllowChars: "abcdef"}
		r.Generate()
		r2 := CharRecipe{Length: 3, Allow: All, Exclude: Ambiguous, ExcludeChars: "abcxyz2346"}
		r2.Generate()
		savedT, savedF := MaxTrials, MaxFailRate
		MaxTrials, MaxFailRate = 2, 1.0
		r3 := CharRecipe{Length: 3, Allow: Digits, RequireSets: []string{"13579"}}
		r3.Generate()
		MaxTrials, MaxFailRate = savedT, savedF
	} else if first == np+2 {
		// class-flag-only recipes whose (Allow, Require, Exclude) a packed,
		// folded or summed key confuses with a preset's recipe
		savedT, savedF := MaxTrials, MaxFailRate
		MaxTrials, MaxFailRate = 2, 1.0
		for _, r := range []CharRecipe{
			{Length: 2, Allow: Digits, Require: Uppers},
			{Length: 2, Allow: Digits | Ambiguous},
			{Length: 2, Allow: Digits, Require: Symbols},
			{Length: 2, Allow: Symbols, Require: Digits},
			{Length: 1, Allow: Digits | Symbols, Exclude: Ambiguous},
		} {
			r.Generate()
			r.Alphabet()
		}
		MaxTrials, MaxFailRate = savedT, savedF
	}
	p := h16Presets[second]
	d0 := vDrawCount()
	s, e := p.f()
	nd := vDrawCount() - d0
	vSample("preset", p.name)
	set := strings.Split(p.set, "")
	if p.n == 0 {
		vAssert(s == "" && e == 0 && nd == 0, "SFNone does not yield the empty separator with zero entropy")
		vReach("none")
		return
	}
	vAssert(nd == p.n, "a preset does not make one draw per separator character")
	want := ""
	for k := 0; k < p.n; k++ {
		vAssert(vDrawNIs(d0+k, uint32(len(set))), "a preset does not draw uniformly from its documented set: "+p.name)
		want += set[vDraw(d0+k)]
	}
	// distinct draws give distinct separators because the documented set has
	// no repeated character: the map from draws to output is one-to-one and onto
	vAssert(s == want, "a preset does not yield the character of its documented set selected by the draw: "+p.name)
	vAssert(h07Close(float32(e), float64(p.n)*math.Log2(float64(len(set)))), "a preset's entropy is not log2(|set|^length): "+p.name)
	// injectivity as a solver query over two independent calls: equal
	// separators can only come from equal draws
	d1 := vDrawCount()
	s2, _ := p.f()
	same := true
	for k := 0; k < p.n; k++ {
		same = vAnd(same, vDraw(d0+k) == vDraw(d1+k))
	}
	vAssert(!(s == s2) || same, "two different draws give the same separator: the preset is not uniform over its documented set: "+p.name)
	vAssert(!same || s == s2, "the same draws give different separators: "+p.name)
	vReach("preset")
}

// H16f: a preset under a failing random source (tape mode: the real kernel on
// source bytes, the failing read and the bytes it still delivers are harness
// choices): it must not return a separator - in particular not the empty one,
// which only SFNone may yield.
func H16f() {
	k := 1 + vChoice("preset", len(h16Presets)-1)
	p := h16Presets[k]
	f := vLen("fault-read", 0, p.n-1)
	j := vLen("fault-bytes", 0, 3)
	vFaultAt(f, j)
	var s string
	panicked := vTry(func() { s, _ = p.f() })
	if vFaultHit() {
		vAssert(panicked, "a preset returned a separator although a read of the random source failed: "+p.name)
		vReach("fault-hit")
	} else {
		vAssert(!panicked && len(strings.Split(s, "")) == p.n, "a preset failed without a source failure: "+p.name)
	}
}

// H16l: the shipped lists as built by the package initialiser equal their
// source data files entry by entry, are lower-case and duplicate-free.
func H16l() {
	which := vChoice("list", 2)
	got, want := AgileWords, h16WordsFile
	if which == 1 {
		got, want = AgileSyllables, h16SyllablesFile
	}
	vAssert(len(want) > 1000, "reference error: the source data file was not read")
	vAssert(len(got) == len(want), "a shipped list does not have as many entries as its source data file")
	seen := make(map[string]bool, len(got))
	for i := range got {
		vAssert(got[i] == want[i], "a shipped list differs from its source data file")
		vAssert(strings.ToLower(got[i]) == got[i], "a shipped list entry is not lower-case")
		vAssert(!seen[got[i]], "a shipped list contains a duplicate")
		seen[got[i]] = true
	}
	wl, err := NewWordList(got)
	vAssert(err == nil && int(wl.Size()) == len(got), "NewWordList drops entries of a shipped list")
	vAssert(vOutputs() == 0, "building a shipped list prints a duplicate notice")
	vReach("lists")
}
