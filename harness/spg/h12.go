package spg

import "strings"

// C12 — Tokenize is total. pw and ti are arbitrary bytes; no UTF-8 assumption.

// specTokens checks that out.tokens are the consecutive character slices the
// index asks for. chars is strings.Split(pw,"") computed by the harness.
func h12Spec(pw string, ti Indices, out Password, ent float32) {
	chars := strings.Split(pw, "")
	kind := ti[0]
	var lens []int
	var types []TokenType
	switch kind {
	case 0:
		for range chars {
			lens = append(lens, 1)
			types = append(types, AtomType)
		}
	case 1:
		for _, l := range ti[1:] {
			lens = append(lens, int(l))
			types = append(types, AtomType)
		}
	case 2:
		for i, l := range ti[1:] {
			lens = append(lens, int(l))
			if i%2 == 1 {
				types = append(types, SeparatorType)
			} else {
				types = append(types, AtomType)
			}
		}
	case 3:
		for i := 1; i+1 < len(ti); i += 2 {
			lens = append(lens, int(ti[i]))
			types = append(types, TokenType(ti[i+1]))
		}
	}
	toks := out.Tokens()
	vAssert(len(toks) == len(lens), "token count differs from the number of length bytes in the index")
	pos := 0
	concat := ""
	for i := range lens {
		end := pos + lens[i]
		vAssert(end <= len(chars), "tokens accepted although the index asks for more characters than the string has")
		want := strings.Join(chars[pos:end], "")
		vAssert(toks[i].Value() == want, "token is not the consecutive slice of characters the index specifies")
		vAssert(toks[i].Type() == types[i], "token type differs from the index")
		concat += toks[i].Value()
		pos = end
	}
	vAssert(len(concat) <= len(pw) && pw[:len(concat)] == concat, "concatenation of the tokens is not a prefix of the string")
	vAssert(out.String() == concat, "String() is not the concatenation of the tokens")
	vAssert(out.Entropy == ent, "entropy is not the value passed in")
}

func h12Body(pw string, ti Indices) {
	ent := float32(12.5)
	var out Password
	var err error
	panicked := vTry(func() { out, err = Tokenize(pw, ti, ent) })
	vAssert(!panicked, "Tokenize panicked")
	vReach("returned")
	q := len(ti)
	if q == 0 {
		vAssert(err != nil, "empty index accepted")
		return
	}
	if ti[0] > 3 {
		vAssert(err != nil, "unknown kind byte accepted")
		return
	}
	if ti[0] == 3 && q%2 == 0 {
		vAssert(err != nil, "truncated full index accepted")
		return
	}
	if err == nil {
		vReach("accepted")
		h12Spec(pw, ti, out, ent)
		return
	}
	vReach("rejected")
	// an error on a well-formed index must be the "too short" case
	if ti[0] != 0 {
		need := 0
		if ti[0] == 3 {
			for i := 1; i < q; i += 2 {
				need += int(ti[i])
			}
		} else {
			for _, l := range ti[1:] {
				need += int(l)
			}
		}
		vAssert(need > len(strings.Split(pw, "")), "well-formed index within the string rejected")
	} else {
		vAssert(false, "character index rejected")
	}
}

// H12a: arbitrary bytes (invalid UTF-8 included) x short indices.
func H12a() {
	p := vLen("pwlen", 0, vParam("p", 3))
	q := vLen("tilen", 0, vParam("q", 4))
	pw := vStr("pw", p)
	ti := Indices(vBytes("ti", q))
	h12Body(pw, ti)
}

// H12b: ASCII-assumed string x long indices (index arithmetic, parity, truncation).
func H12b() {
	p := vLen("pwlen", 0, vParam("p", 5))
	q := vLen("tilen", 0, vParam("q", 7))
	pw := vStr("pw", p)
	for i := 0; i < len(pw); i++ {
		vAssume(pw[i] < 0x80)
	}
	ti := Indices(vBytes("ti", q))
	h12Body(pw, ti)
}

// H12c: long concrete strings at the sizes where a table, a length byte or a
// machine word could run out (63..65 and 255..257 characters, pure ASCII and
// with one two-byte character in front) x short indices whose bytes range over
// the same boundary values.
func H12c() {
	n := []int{63, 64, 65, 255, 256, 257}[vChoice("chars", 6)]
	pw := strings.Repeat("a", n)
	if vChoice("wide", 2) == 1 {
		pw = "é" + pw[1:]
	}
	q := vLen("tilen", 0, vParam("q", 3))
	vals := []byte{0, 1, 2, 3, 62, 63, 64, 65, 200, 254, 255}
	ti := make(Indices, q)
	for i := range ti {
		if i == 0 {
			ti[i] = vals[vChoice("kind", 5)] // 0..3 and an unknown kind
			if ti[i] == 62 {
				ti[i] = 200
			}
			continue
		}
		ti[i] = vals[vChoice("ti"+vDigits[i], len(vals))]
	}
	h12Body(pw, ti)
}
