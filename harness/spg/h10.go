package spg

import "strings"

// C10 / C08 — NewWordList normalisation and wordlist entropy under every map
// iteration order. Words are short symbolic ASCII strings, so duplicates,
// "w together with Title(w)", already-capitalised and caseless words all arise
// as solver-feasible forks; the order of every map range inside NewWordList is
// a choice point.

func h10Input(name string) []string {
	k := vLen(name+"-nwords", 1, vParam("k", 3))
	maxb := vParam("b", 2)
	minb := vParam("minb", 1)
	list := make([]string, k)
	for i := 0; i < k; i++ {
		l := vLen(name+"-len"+vDigits[i], minb, maxb)
		w := vStr(name+"-w"+vDigits[i], l)
		for j := 0; j < len(w); j++ {
			vAssume(w[j] >= 0x20 && w[j] < 0x7f)
		}
		list[i] = w
	}
	return list
}

// h10Kept: the reference kept set {w in input : no other listed u with Title(u) == w}, each once.
func h10Kept(input []string) []string {
	var kept []string
	for _, w := range input {
		if h02Has(kept, w) {
			continue
		}
		drop := false
		for _, u := range input {
			if u != w && strings.Title(u) == w {
				drop = true
			}
		}
		if !drop {
			kept = append(kept, w)
		}
	}
	return kept
}

func h10SameSet(a, b []string) bool {
	if len(a) != len(b) {
		return false
	}
	for _, x := range a {
		if !h02Has(b, x) {
			return false
		}
	}
	return true
}

// H10: normalisation for every input and every iteration order.
func H10() {
	input := h10Input("in")
	saved := append([]string(nil), input...)
	kept := h10Kept(input)
	vSample("input-size", len(input))
	vSample("kept-size", len(kept))
	if len(kept) < len(input) {
		vReach("something-dropped")
	}

	vOrderChoice(true)
	var wl *WordList
	var err error
	panicked := vTry(func() { wl, err = NewWordList(input) })
	vOrderChoice(false)
	vAssert(!panicked, "NewWordList panicked")
	vAssert(err == nil && wl != nil, "NewWordList refused a non-empty list")
	vReach("built")
	for i := range input {
		vAssert(input[i] == saved[i], "NewWordList modified the caller's slice")
	}
	vAssert(int(wl.Size()) == len(kept), "Size() is not the number of words that must be kept")
	vAssert(len(wl.words) == len(kept), "the kept words are not exactly one copy of each distinct word minus capitalised twins")
	for i := range wl.words {
		vAssert(h02Has(kept, wl.words[i]), "a word was kept that must be dropped, or a word appeared that was not supplied")
		for j := i + 1; j < len(wl.words); j++ {
			vAssert(wl.words[i] != wl.words[j], "a word was kept twice")
		}
	}

	// a permuted / duplicated copy of the same words gives the same kept set
	var variant []string
	switch vChoice("variant", 3) {
	case 0: // reversed
		for i := len(input) - 1; i >= 0; i-- {
			variant = append(variant, input[i])
		}
	case 1: // first word repeated at the end
		variant = append(append(variant, input...), input[0])
	case 2: // rotated
		variant = append(append(variant, input[1:]...), input[0])
	}
	vOrderChoice(true)
	wl2, err2 := NewWordList(variant)
	vOrderChoice(false)
	vAssert(err2 == nil, "NewWordList refused the permuted list")
	vAssert(h10SameSet(wl2.words, wl.words), "the kept set depends on the order or multiplicity of the input")

	// every generated atom is a kept word (or its title-cased form)
	r := NewWLRecipe(1, wl)
	first := vChoice("first", 2) == 1
	if first {
		r.Capitalize = CSFirst
	}
	vSummary(true)
	p, gerr := r.Generate()
	vAssert(gerr == nil && p != nil, "Generate failed on a normalised list")
	vAssert(vDrawCount() == 1 && vDrawNIs(0, uint32(len(kept))), "the word is not drawn from exactly the kept words")
	atoms := p.Tokens().Atoms()
	w := wl.words[vDraw(0)]
	if first {
		w = strings.Title(w)
	}
	if len(w) > 0 {
		vAssert(len(atoms) == 1 && atoms[0] == w, "a generated atom is not a kept word or its title-cased form")
	}
	vReach("generated")
}

// concrete lists for the order-exhaustive runs: twins together with words that
// do not change under title-casing, multi-part words, leading punctuation,
// non-ASCII and caseless words
var h08Lists = [][]string{
	{"Ab", "ab", "1"},
	{"Polish", "polish", "one"},
	{"Polish", "polish", "正確"},
	{"X", "x"},
	{"Jean-luc", "o'neil"},
	{"'tis", "of", "thee"},
	{"ab", "cd", "ef"},
	{"42", "x1"},
	{"Ab", "ab", "Cd", "cd"},
	{"Polish", "polish", "one", "two", "正確"},
	{"élan", "Élan", "über"},
	{"macOS", "MacOS"},
	{"abc", "ÿes", "Ÿes"},
	{"µm", "Μm"},
	{"new York", "New York", "o'Neil", "O'Neil"},
	{"ალფა", "ბეტა"},            // Georgian: lower-case letters that have no title-case form
	{"alpha", "ßeta", "ŉu"},     // lower-case first letters, two of them without a title-case form
	{"alpha", "bravo", "bravo"}, // sorted, lower case, with a repeated entry
	// strings.Title starts a new word after a separator only: ASCII punctuation
	// other than '_', and Unicode spaces. After '_', a digit, U+2019, a
	// combining mark it does not, so these capitalised words do not change:
	{"Foo_bar", "baz"},
	{"L’enfant", "gamin"},
	{"E\u0301clair", "tarte"},
	{"Ab1c", "x"},
	{"Tab\u00a0le", "x"}, // a no-break space is a separator: Tab\u00a0Le differs
}

// H08: wordlist entropy is exact and depends on the recipe alone.
func H08() {
	var input []string
	if vParam("concrete", 0) == 1 {
		input = h08Lists[vChoice("list", len(h08Lists))]
	} else {
		input = h10Input("in")
	}
	kept := h10Kept(input)
	allCap := true
	for _, w := range kept {
		if strings.Title(w) == w {
			allCap = false
		}
	}
	if !allCap {
		vReach("uncapitalisable-word")
	}
	if len(kept) < len(input) {
		vReach("something-dropped")
	}
	vOrderChoice(true)
	wl1, e1 := NewWordList(input)
	wl2, e2 := wl1, e1
	if vParam("three", 1) == 1 {
		wl2, e2 = NewWordList(input)
	}
	var variant []string
	for i := len(input) - 1; i >= 0; i-- {
		variant = append(variant, input[i])
	}
	variant = append(variant, input[0])
	wl3, e3 := NewWordList(variant)
	vOrderChoice(false)
	vAssert(e1 == nil && e2 == nil && e3 == nil, "NewWordList refused a non-empty list")

	vSummary(true)
	vReach("computed")
	for L := 1; L <= vParam("L", 3); L++ {
		for _, scheme := range h04Schemes {
			for sepKind := 0; sepKind < 2; sepKind++ {
				if sepKind == 1 && scheme != CSOne {
					continue // the separator term is independent of the scheme: one scheme suffices
				}
				mk := func(wl *WordList) *WLRecipe {
					r := NewWLRecipe(L, wl)
					r.Capitalize = scheme
					if sepKind == 1 {
						r.SeparatorFunc = SFDigits1
					}
					return r
				}
				r1, r2, r3 := mk(wl1), mk(wl2), mk(wl3)
				a, b, c, again := r1.Entropy(), r2.Entropy(), r3.Entropy(), r1.Entropy()
				vAssert(h08Bits(a) == h08Bits(again), "Entropy() differs between two calls on the same recipe")
				vAssert(h08Bits(a) == h08Bits(b), "Entropy() differs between two constructions of the list from the same input")
				vAssert(h08Bits(a) == h08Bits(c), "Entropy() differs for a permuted / repeated input of the same words")

				want := float64(L) * h08Log2(float64(len(kept)))
				if allCap {
					switch scheme {
					case CSRandom:
						want += float64(L)
					case CSOne:
						want += h08Log2(float64(L))
					}
				}
				if sepKind == 1 {
					want += float64(L-1) * h08Log2(10)
				}
				vAssert(h07Close(a, want), "Entropy() is not Length*log2(size) + capitalisation bits (iff every kept word changes under title-casing) + (Length-1)*separator entropy")
			}
		}
	}
}

// H10c: the concrete lists (non-ASCII twins, interior capitals, caseless
// words) under every iteration order and as permuted / repeated copies.
func H10c() {
	input := append([]string(nil), h08Lists[vChoice("list", len(h08Lists))]...)
	extra := [][]string{{"ấn", "Ấn"}, {"ａbc", "Ａbc", "x"}, {"MacOS", "macOS", "MacOS"}, {"mcDonald", "McDonald", "iPhone", "IPhone"}}
	ne := len(extra)
	if e := vChoice("extra", ne+3); e > 0 && e <= ne {
		input = append([]string(nil), extra[e-1]...)
	} else if e > ne {
		// one member of a twin pair repeated 256 times (multiplicity must not matter)
		input = nil
		rep, other := "polish", "Polish"
		if e == ne+2 {
			rep, other = other, rep
		}
		for i := 0; i < 256; i++ {
			input = append(input, rep)
		}
		input = append(input, other, "one")
	}
	saved := append([]string(nil), input...)
	kept := h10Kept(input)
	if len(kept) < len(input) {
		vReach("something-dropped")
	}
	var variant []string
	switch vChoice("variant", 3) {
	case 0:
		for i := len(input) - 1; i >= 0; i-- {
			variant = append(variant, input[i])
		}
	case 1:
		variant = append(append(variant, input...), input[0])
	case 2:
		variant = append(append(variant, input[1:]...), input[0])
	}
	vOrderChoice(true)
	wl, err := NewWordList(input)
	wl2, err2 := NewWordList(variant)
	vOrderChoice(false)
	vAssert(err == nil && err2 == nil, "NewWordList refused a non-empty list")
	vReach("built")
	for i := range input {
		vAssert(input[i] == saved[i], "NewWordList modified the caller's slice")
	}
	vAssert(int(wl.Size()) == len(kept) && len(wl.words) == len(kept), "Size() is not the number of words that must be kept")
	vAssert(h10SameSet(wl.words, kept), "the kept words are not exactly one copy of each distinct word minus capitalised twins")
	vAssert(h10SameSet(wl2.words, kept), "the kept set depends on the order or multiplicity of the input")
}
