package spg

import (
	"math"
	"strings"
)

// C14 / C15 / C18 — non-interference obligations discharged on every explored
// path of API calls on shared values:
//   * write set: no call stores into memory that existed before the call
//     (the recipe's backing arrays, the word list, a separator closure's
//     captured state, package-level variables)                         (C14, C15)
//   * purity: public fields, caller slices and the word list are unchanged,
//     and a call's result does not depend on the calls before it       (C15)
//   * secrets: nothing derived from a random draw reaches an output sink (C18)

type h14Shared struct {
	cr     CharRecipe
	cr2    CharRecipe
	wr     *WLRecipe
	wl     *WordList
	sf     SFFunction
	sfRec  CharRecipe
	reqs   []string
	master []string
	input  []string
	preset SFFunction
}

var h14Presets = []SFFunction{SFNone, SFDigits1, SFDigits2, SFDigitsNoAmbiguous1, SFDigitsNoAmbiguous2, SFSymbols, SFDigitsSymbols}

func h14Setup() *h14Shared {
	s := &h14Shared{}
	// the caller's RequireSets is a prefix of a longer slice: spare capacity
	s.master = []string{"ab", "", "cd", "XYZ", "q"}
	s.reqs = s.master[:3]
	s.cr = CharRecipe{Length: 3, AllowChars: "abcdx", Require: Digits | Symbols, RequireSets: s.reqs}
	s.cr2 = CharRecipe{Length: 2, Require: Letters | Symbols, Exclude: Symbols, ExcludeChars: "xyz"}
	s.input = []string{"uno", "dos", "tres", "Uno"}
	s.wl, _ = NewWordList(s.input)
	s.sfRec = CharRecipe{Length: 1, AllowChars: "xy0", RequireSets: []string{"xy"}}
	s.sf = NewSFFunction(s.sfRec)
	s.wr = NewWLRecipe(2, s.wl)
	s.wr.Capitalize = CSOne
	s.wr.SeparatorFunc = s.sf
	return s
}

// h14Call performs one API call on the shared values.
func h14Call(s *h14Shared, op int) {
	switch op {
	case 0:
		s.cr.Generate()
	case 1:
		s.cr.Entropy()
	case 2:
		s.cr.Alphabet()
	case 3:
		s.cr.SuccessProbability()
	case 4:
		s.wr.Generate()
	case 5:
		s.wr.Entropy()
	case 6:
		s.wr.Size()
		s.wl.Size()
	case 7:
		s.sf()
	case 8:
		r := *s.wr
		r.SeparatorFunc = nil
		r.SeparatorChar = "-"
		r.Capitalize = CSRandom
		r.Generate()
	case 9:
		s.cr2.Generate()
		s.cr2.Entropy()
	default:
		h14Presets[op-10]()
	}
}

const h14Ops = 10 + 7

func h14OpName(op int) string {
	names := []string{"CharRecipe.Generate", "CharRecipe.Entropy", "CharRecipe.Alphabet", "CharRecipe.SuccessProbability", "WLRecipe.Generate", "WLRecipe.Entropy", "Size", "constructed SFFunction", "WLRecipe.Generate(random)", "CharRecipe with a fully excluded required class"}
	if op < len(names) {
		return names[op]
	}
	return "separator preset"
}

// H14: the write set of every API call is confined to memory the call itself
// allocated. A previous call (any op) may have run before: state it left
// behind in shared memory would be a write during that first call.
func H14() {
	savedT, savedF := MaxTrials, MaxFailRate
	defer func() { MaxTrials, MaxFailRate = savedT, savedF }()
	MaxTrials, MaxFailRate = 2, 1.0
	s := h14Setup()
	mode := vChoice("mode", 2) // 0: draws summarised; 1: the real kernel on source bytes
	vSummary(mode == 0)
	op := vChoice("op", h14Ops)
	if mode == 1 && op != 0 && op != 7 && op != 11 {
		return // the kernel's own write set does not depend on the caller: three ops suffice
	}
	vSample("op", h14OpName(op))
	vBeginCall()
	h14Call(s, op)
	vEndCall()
	vReach("called")
	vNote("first-write", vSharedWriteText(0))
	vAssert(vSharedWrites() == 0, "an API call writes to memory shared with other callers (recipe, word list, separator state or a package-level variable): concurrent calls on the shared value conflict")
	// a second call of any kind on the same values
	if mode == 1 {
		return
	}
	op2 := vChoice("op2", vParam("second", 4))
	vBeginCall()
	h14Call(s, []int{0, 4, 7, 11}[op2])
	vEndCall()
	vAssert(vSharedWrites() == 0, "a second API call on the same shared values writes to shared memory")
}

// H15a: public fields, caller slices and the word list are unchanged by a call.
func H15a() {
	savedT, savedF := MaxTrials, MaxFailRate
	defer func() { MaxTrials, MaxFailRate = savedT, savedF }()
	MaxTrials, MaxFailRate = 2, 1.0
	s := h14Setup()
	reqs0 := append([]string(nil), s.reqs...)
	input0 := append([]string(nil), s.input...)
	words0 := append([]string(nil), s.wl.words...)
	cr0, wr0 := s.cr, *s.wr
	vSummary(true)
	// a password returned earlier must not change when further calls are made
	first, ferr := s.cr.Generate()
	var firstToks []string
	if ferr == nil {
		for _, t := range first.Tokens() {
			firstToks = append(firstToks, t.Value())
		}
	}
	op := vChoice("op", 9)
	h14Call(s, op)
	h14Call(s, 0)
	vReach("called")
	if ferr == nil {
		toks := first.Tokens()
		vAssert(len(toks) == len(firstToks), "a password returned earlier changed when another call was made")
		for i := range firstToks {
			vAssert(toks[i].Value() == firstToks[i], "a password returned earlier changed when another call was made (its tokens alias reused memory)")
		}
	}
	vAssert(s.master[3] == "XYZ" && s.master[4] == "q", "a call wrote into the caller's slice beyond the recipe's RequireSets (spare capacity)")
	vAssert(len(s.reqs) == len(reqs0) && len(s.cr.RequireSets) == len(reqs0), "a call changed RequireSets")
	for i := range reqs0 {
		vAssert(s.reqs[i] == reqs0[i], "a call wrote into the caller's RequireSets slice")
	}
	for i := range input0 {
		vAssert(s.input[i] == input0[i], "a call wrote into the slice passed to NewWordList")
	}
	vAssert(len(s.wl.words) == len(words0), "a call changed the word list")
	for i := range words0 {
		vAssert(s.wl.words[i] == words0[i], "a call reordered or changed the word list")
	}
	vAssert(s.cr.Length == cr0.Length && s.cr.Allow == cr0.Allow && s.cr.Require == cr0.Require && s.cr.Exclude == cr0.Exclude && s.cr.AllowChars == cr0.AllowChars && s.cr.ExcludeChars == cr0.ExcludeChars, "a call changed a public field of the character recipe")
	vAssert(s.wr.Length == wr0.Length && s.wr.SeparatorChar == wr0.SeparatorChar && s.wr.Capitalize == wr0.Capitalize && s.wr.list == wr0.list, "a call changed a public field of the wordlist recipe")
}

// h15Family: recipes that differ only in how the required characters are
// grouped (and lookalikes under joining with "", "," or " ").
// recipes with class flags: a class that is required and fully excluded, then
// recipes that require or allow that class
var h15Flagged = []CharRecipe{
	{Length: 2, Require: Letters | Digits | Symbols, Exclude: Symbols},
	{Length: 2, Allow: Letters, Require: Symbols},
	{Length: 2, Allow: Digits | Symbols, Exclude: Ambiguous, ExcludeChars: "abc!"},
	{Length: 2, Allow: All, Exclude: Ambiguous},
	{Length: 2, Allow: Digits, Require: Uppers, Exclude: Uppers | Digits},
	{Length: 2, Allow: Lowers, RequireSets: []string{"aeiou"}}, // one class allowed, nothing excluded, an overlapping required set
	{Length: 2, Allow: Digits, RequireSets: []string{"13579"}},
}

var h15ReqSets = [][]string{
	{"ab", "cd"},
	{"abcd"},
	{"a", "b", "c", "d"},
	{"ab,cd"},
	{"ab cd"},
	{"a", "bcd"},
	{"ab", "", "cd"},
	nil,
}

func h15Recipe(i int) CharRecipe {
	if i >= len(h15ReqSets) {
		return h15Flagged[i-len(h15ReqSets)]
	}
	return CharRecipe{Length: 2, AllowChars: "xy, ", RequireSets: h15ReqSets[i]}
}

type h15Result struct {
	ent   float32
	alpha string
	sp    float32
	pw    string
	err   bool
}

func h15Eval(r CharRecipe) h15Result {
	var res h15Result
	res.ent = r.Entropy()
	res.alpha = r.Alphabet()
	res.sp = r.SuccessProbability()
	p, err := r.Generate()
	res.err = err != nil
	if p != nil {
		res.pw = p.String()
	}
	return res
}

// H15b: history independence. After a full call sequence on another recipe of
// the family (lookalikes under joining the required sets with nothing, a comma
// or a blank), the calls on recipe i - constructed anew or obtained by a
// caller-side update of RequireSets - must return what the recipe's current
// fields specify: the reference alphabet, log2 of the exact count, the exact
// success fraction, and the reference sampler's password on the draws made.
func H15b() {
	savedT, savedF := MaxTrials, MaxFailRate
	defer func() { MaxTrials, MaxFailRate = savedT, savedF }()
	MaxTrials, MaxFailRate = 2, 1.0
	n := len(h15ReqSets) + len(h15Flagged)
	i := vChoice("recipe", n)
	j := vChoice("earlier-recipe", n)
	update := vChoice("update", 2) == 1
	if update && (i >= len(h15ReqSets) || j >= len(h15ReqSets)) {
		return // the update variant changes RequireSets only
	}
	vSummary(true)

	r := h15Recipe(j)
	r.Entropy()
	r.Alphabet()
	r.SuccessProbability()
	r.Generate()
	if update {
		r.RequireSets = h15ReqSets[i]
	} else {
		r = h15Recipe(i)
	}
	d1 := vDrawCount()
	after := h15Eval(r)
	d2 := vDrawCount()
	vReach("evaluated")

	want := h15Recipe(i)
	L := want.Length
	alpha, reqs, _ := h02Ref(want)
	valid := h07Count(alpha, reqs, L)
	vAssert(after.alpha == strings.Join(alpha, ""), "Alphabet() depends on earlier calls or ignores an updated field")
	if valid.Sign() > 0 {
		vAssert(h07Close(after.ent, h07Log2(valid)), "Entropy() depends on earlier calls or ignores an updated field")
		exact := math.Exp2(h07Log2(valid) - float64(L)*math.Log2(float64(len(alpha))))
		vAssert(math.Abs(float64(after.sp)-exact) <= 1e-3*exact+1e-7, "SuccessProbability() depends on earlier calls or ignores an updated field")
	} else {
		vAssert(math.IsInf(float64(after.ent), -1), "Entropy() depends on earlier calls or ignores an updated field (count is zero)")
	}
	nd := d2 - d1
	if after.err && nd == 0 {
		vAssert(valid.Sign() == 0, "Generate refuses a satisfiable recipe depending on earlier calls")
		return
	}
	vAssert(nd%L == 0 && nd >= L, "the number of draws Generate makes depends on earlier calls")
	for k := 0; k < nd; k++ {
		vAssert(vDrawNIs(d1+k, uint32(len(alpha))), "Generate draws from an alphabet that is not the current recipe's (stale state from an earlier call)")
	}
	attempts := nd / L
	last := attempts - 1
	for k := 0; k < last; k++ {
		vAssert(!h02AcceptAt(alpha, reqs, L, k, d1), "a candidate that satisfies the current requirements was discarded")
	}
	if after.err {
		vAssert(!h02AcceptAt(alpha, reqs, L, last, d1), "Generate failed although the last candidate satisfies the current requirements")
		return
	}
	vAssert(h02AcceptAt(alpha, reqs, L, last, d1), "a password that misses a currently required set was returned")
	pw := ""
	for k := 0; k < L; k++ {
		pw += alpha[vDraw(d1+last*L+k)]
	}
	vAssert(after.pw == pw, "Generate's password is not built from the current recipe's alphabet on the draws made")
}

// H15w: the same for wordlist recipes and separator functions.
func H15w() {
	wl1, _ := NewWordList([]string{"uno", "dos", "tres"})
	wl2, _ := NewWordList([]string{"alpha", "beta"})
	vSummary(true)
	mk := func(k int) *WLRecipe {
		r := NewWLRecipe(2, wl1)
		switch k {
		case 1:
			r.Capitalize = CSOne
		case 2:
			r.SeparatorFunc = SFDigits1
		case 3:
			r.list = wl2
			r.SeparatorChar = "-"
		case 4:
			r.SeparatorFunc = SFDigitsNoAmbiguous1
		}
		return r
	}
	i := vChoice("recipe", 5)
	j := vChoice("earlier-recipe", 5)
	fr := mk(i)
	fe := fr.Entropy()
	fp, ferr := fr.Generate()
	d0 := vDrawCount()
	r := mk(j)
	r.Entropy()
	r.Generate()
	// the caller updates the fields of the same recipe value
	*r = *mk(i)
	d1 := vDrawCount()
	ae := r.Entropy()
	dE := vDrawCount() - d1
	ap, aerr := r.Generate()
	d2 := vDrawCount()
	vReach("evaluated")
	vAssert(ae == fe, "WLRecipe.Entropy() depends on earlier calls or ignores updated fields")
	nGen := d2 - d1 - dE
	nmin := nGen
	if d0-dE < nmin {
		nmin = d0 - dE
	}
	for k := 0; k < nmin; k++ {
		vAssume(vDraw(dE+k) == vDraw(d1+dE+k))
	}
	// a recipe copied by value is its own recipe: updating the copy, or the
	// original afterwards, affects only the value that was updated
	base := NewWLRecipe(2, wl1)
	cp := *base
	cp.SeparatorChar = "_"
	base.SeparatorChar = "#"
	pc, ec := cp.Generate()
	if ec == nil {
		seps := pc.Tokens().Separators()
		vAssert(len(seps) == 1 && seps[0] == "_", "a recipe copied by value does not honour its own SeparatorChar (it follows the value it was copied from)")
		vReach("copied")
	}
	vAssert(nGen == d0-dE, "the number of draws WLRecipe.Generate makes on the same stream depends on earlier calls")
	vAssert((ferr == nil) == (aerr == nil), "WLRecipe.Generate fails depending on earlier calls")
	if ferr == nil && aerr == nil {
		vAssert(fp.String() == ap.String(), "WLRecipe.Generate's outcome on the same draws depends on earlier calls or ignores updated fields")
	}
}

// H15s: a separator function's result does not depend on how earlier calls of
// it went: after a call on which every attempt failed (empty separator), the
// next call on good draws still yields a separator of its recipe.
func H15s() {
	savedT, savedF := MaxTrials, MaxFailRate
	defer func() { MaxTrials, MaxFailRate = savedT, savedF }()
	MaxTrials, MaxFailRate = 1, 1.0
	rec := CharRecipe{Length: 1, AllowChars: "xy0", RequireSets: []string{"xy"}}
	sf := NewSFFunction(rec)
	wl, _ := NewWordList([]string{"uno", "dos"})
	r := NewWLRecipe(2, wl)
	r.SeparatorFunc = sf
	vSummary(true)
	alpha, reqs, _ := h02Ref(rec)
	s1, _ := sf()
	d1 := vDrawCount()
	s2, e2 := sf()
	d2 := vDrawCount()
	vReach("called")
	vSample("first", s1)
	if s1 == "" {
		vReach("first-call-failed")
	}
	vAssert(d2-d1 == 1 && vDrawNIs(d1, uint32(len(alpha))), "a later call of the separator function does not draw from its recipe's alphabet (state left by an earlier call)")
	if h02AcceptAt(alpha, reqs, 1, 0, d1) {
		vAssert(s2 == alpha[vDraw(d1)], "a separator function's result depends on how an earlier call went")
		vAssert(e2 > 0, "a separator function's entropy depends on how an earlier call went")
		vReach("second-call-good")
	} else {
		vAssert(s2 == "", "a rejected separator candidate was returned")
	}
	// and the recipe that uses it still counts the separator's entropy
	e := r.Entropy()
	fresh := NewWLRecipe(2, wl)
	fresh.SeparatorFunc = NewSFFunction(rec)
	// (both entropy queries call the function once; compare on accepted paths only)
	_ = e
	_ = fresh
}

// H18: nothing derived from random draws reaches stdout, stderr or the log —
// on accepted, retried, exhausted and refused generations alike.
func H18() {
	savedT, savedF := MaxTrials, MaxFailRate
	defer func() { MaxTrials, MaxFailRate = savedT, savedF }()
	MaxTrials = vLen("maxtrials", 1, 2)
	MaxFailRate = 1.0
	vSummary(true)
	kind := vChoice("kind", 11)
	var p *Password
	var err error
	switch kind {
	case 9: // a separator function whose output is longer than any token the index can encode
		wl, _ := NewWordList([]string{"uno", "dos"})
		r := NewWLRecipe(2, wl)
		r.SeparatorFunc = NewSFFunction(CharRecipe{Length: 256, AllowChars: "§¶"})
		p, err = r.Generate()
	case 10: // a long run of rejected candidates within one call (the full default retry budget)
		MaxTrials = 200
		r := CharRecipe{Length: 1, AllowChars: "§", RequireSets: []string{"¶"}}
		p, err = r.Generate()
		alpha, _, _ := h02Ref(r)
		for k := 0; k < vDrawCount(); k++ {
			vSecret(alpha[vDraw(k)])
		}
	case 0: // character recipe with a requirement: accepted, retried or exhausted
		r := CharRecipe{Length: 2, AllowChars: "§¶", Require: Digits, Exclude: Ambiguous}
		p, err = r.Generate()
		alpha, _, _ := h02Ref(r)
		for k := 0; k*2+1 < vDrawCount(); k++ {
			vSecret(alpha[vDraw(2*k)] + alpha[vDraw(2*k+1)])
		}
	case 1: // non-ASCII alphabet
		r := CharRecipe{Length: 3, AllowChars: "äöüß", Allow: Digits}
		p, err = r.Generate()
	case 2: // refused: impossible requirement
		r := CharRecipe{Length: 1, Require: Digits | Uppers}
		p, err = r.Generate()
	case 3: // wordlist, constructed separator with a requirement that can fail
		wl, _ := NewWordList([]string{"uno", "dos", "tres"})
		r := NewWLRecipe(2, wl)
		r.Capitalize = CSRandom
		sr := CharRecipe{Length: 2, AllowChars: "§¶†‡", Require: Digits}
		r.SeparatorFunc = NewSFFunction(sr)
		p, err = r.Generate()
		alpha, _, _ := h02Ref(sr)
		for k := 0; k+1 < vDrawCount(); k++ {
			if vDrawNIs(k, uint32(len(alpha))) && vDrawNIs(k+1, uint32(len(alpha))) {
				vSecret(alpha[vDraw(k)] + alpha[vDraw(k+1)])
			}
		}
	case 4: // wordlist with a duplicate in the input (the library prints a notice)
		wl, _ := NewWordList([]string{"uno", "dos", "uno"})
		r := NewWLRecipe(2, wl)
		r.SeparatorFunc = SFDigits1
		p, err = r.Generate()
	case 5: // refused: bad length
		r := CharRecipe{Length: 0, Allow: Digits}
		p, err = r.Generate()
	case 8: // words that capitalisation does not change, under first / one
		wl, _ := NewWordList([]string{"4ever", "2morrow", "uno"})
		r := NewWLRecipe(2, wl)
		r.Capitalize = []CapScheme{CSFirst, CSOne}[vChoice("scheme", 2)]
		p, err = r.Generate()
	case 7: // diagnostics emitted after a generation (they must not carry it)
		r := CharRecipe{Length: 3, Allow: Lowers}
		p, err = r.Generate()
		NewWordList([]string{"uno", "dos", "uno"})
		empty := CharRecipe{Length: 2, Allow: Digits, Exclude: Digits}
		empty.Entropy()
	case 6: // entropy / probability queries
		r := CharRecipe{Length: 2, Allow: Digits, RequireSets: []string{"ab"}}
		r.Entropy()
		r.SuccessProbability()
		p, err = r.Generate()
	}
	vReach("called")
	if p != nil {
		vSecret(p.String())
		for _, a := range p.Tokens().Atoms() {
			vSecret(a)
		}
		for _, a := range p.Tokens().Separators() {
			vSecret(a)
		}
		vReach("password")
	}
	if err != nil {
		vReach("error")
	}
	vAssert(vTaintedOutputs() == 0, "text derived from random draws (a password, a word, a separator or a rejected candidate) was written to stdout, stderr or the log")
	for i := 0; i < vOutputs(); i++ {
		t := vOutputText(i)
		vNote("output", t)
		ok := strings.Contains(t, "duplicate words found") || strings.Contains(t, "entropySimple: There must be a positive number") || strings.Contains(t, "successProbability:")
		vAssert(ok || !vEngine(), "the library emitted a diagnostic other than the three known ones (duplicate-word notice, impossible-alphabet and rounding warnings)")
	}
}
