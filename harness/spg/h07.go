package spg

import (
	"math"
	"math/big"
)

// C07 — character-recipe entropy = log2 of the exact number of satisfying
// strings. The characters of the custom sets are symbolic, so every overlap
// pattern between the allowed set and the required sets (and among the
// required sets) is a path the solver found feasible.

// h07Count: number of strings of length L over alphabet that contain a member
// of every required set; subset-automaton DP (no inclusion-exclusion).
func h07Count(alpha []string, reqs [][]string, L int) *big.Int {
	k := len(reqs)
	nm := 1 << uint(k)
	// multiplicity of each "which sets does this character hit" mask
	cnt := make([]int64, nm)
	for _, c := range alpha {
		mask := 0
		for i, q := range reqs {
			if h02Has(q, c) {
				mask |= 1 << uint(i)
			}
		}
		cnt[mask]++
	}
	dp := make([]*big.Int, nm)
	for i := range dp {
		dp[i] = big.NewInt(0)
	}
	dp[0] = big.NewInt(1)
	for step := 0; step < L; step++ {
		next := make([]*big.Int, nm)
		for i := range next {
			next[i] = big.NewInt(0)
		}
		for m := 0; m < nm; m++ {
			if dp[m].Sign() == 0 {
				continue
			}
			for t := 0; t < nm; t++ {
				if cnt[t] == 0 {
					continue
				}
				term := big.NewInt(0)
				term.Mul(dp[m], big.NewInt(cnt[t]))
				next[m|t].Add(next[m|t], term)
			}
		}
		dp = next
	}
	return dp[nm-1]
}

// h07CountPow: closed form for large L through powers of the per-mask
// transfer: only used when the DP would be too long. Inclusion-exclusion over
// the *reference* sets (correct form): sum over S of (-1)^|S| |alpha minus union(S)|^L.
func h07CountIE(alpha []string, reqs [][]string, L int) *big.Int {
	k := len(reqs)
	total := big.NewInt(0)
	for s := 0; s < 1<<uint(k); s++ {
		var avoid []string
		bits := 0
		for i, q := range reqs {
			if s&(1<<uint(i)) != 0 {
				bits++
				avoid = h02Add(avoid, q...)
			}
		}
		rest := int64(len(h02Minus(alpha, avoid)))
		term := big.NewInt(0)
		term.Exp(big.NewInt(rest), big.NewInt(int64(L)), nil)
		if bits%2 == 1 {
			total.Sub(total, term)
		} else {
			total.Add(total, term)
		}
	}
	return total
}

// h07Log2: log2 of a positive big integer through its bit length and the top
// 53 bits (a different route from the library's MantExp).
func h07Log2(x *big.Int) float64 {
	bl := x.BitLen()
	if bl <= 53 {
		return math.Log2(float64(x.Uint64()))
	}
	top := big.NewInt(0)
	top.Rsh(x, uint(bl-53))
	return math.Log2(float64(top.Uint64())) + float64(bl-53)
}

func h07Close(got float32, want float64) bool {
	w := float32(want)
	if got == w {
		return true
	}
	a, b := math.Float32bits(got), math.Float32bits(w)
	if a > b {
		a, b = b, a
	}
	return b-a <= 8 && (got > 0) == (w > 0)
}

func h07Recipe() CharRecipe {
	na := vLen("nallowed", 0, vParam("a", 2))
	k := vLen("nsets", 0, vParam("k", 2))
	msz := vParam("m", 2)
	var r CharRecipe
	r.AllowChars = vStr("allowed", na)
	for i := 0; i < len(r.AllowChars); i++ {
		vAssume(r.AllowChars[i] >= 0x21 && r.AllowChars[i] < 0x7f)
	}
	for i := 0; i < k; i++ {
		sz := vLen("setsize"+vDigits[i], 1, msz)
		s := vStr("set"+vDigits[i], sz)
		for j := 0; j < len(s); j++ {
			vAssume(s[j] >= 0x21 && s[j] < 0x7f)
		}
		r.RequireSets = append(r.RequireSets, s)
	}
	if ne := vParam("e", 0); ne > 0 {
		x := vStr("excluded", vLen("nexcluded", 0, ne))
		for j := 0; j < len(x); j++ {
			vAssume(x[j] >= 0x21 && x[j] < 0x7f)
		}
		r.ExcludeChars = x
	}
	fl := vChoice("flags", vParam("flags", 1))
	switch fl {
	case 1:
		r.Require = Digits
	case 2:
		r.Allow = Digits
		r.Exclude = Ambiguous
	case 3:
		r.Require = Symbols
		r.Allow = Digits
	case 4:
		// the Ambiguous class overlaps Digits, Uppers and Lowers
		r.Require = Digits | Ambiguous
	case 5:
		r.Require = Ambiguous
		r.Allow = Digits
	}
	return r
}

// H07: exact count and entropy for every overlap pattern.
func H07() {
	r := h07Recipe()
	big := vParam("big", 0)
	switch big {
	case 0:
		r.Length = vLen("length", 1, vParam("L", 3))
	case 1:
		r.Length = []int{1000, 5000}[vChoice("biglength", 2)]
	default:
		// lengths at which small powers reach the 32- and 64-bit word sizes
		r.Length = []int{16, 32, 63, 64, 65}[vChoice("wordsizelength", 5)]
	}
	alpha, reqs, excluded := h02Ref0(r)
	// C07's premise: every required set keeps at least one non-excluded
	// character (a set emptied by exclusion is C13's subject)
	for _, s := range r.RequireSets {
		if len(s) > 0 && len(h02Minus(h02Chars(s), excluded)) == 0 {
			vReach("premise-excluded")
			return
		}
	}
	if len(alpha) == 0 {
		vReach("empty-alphabet")
		return
	}
	vSample("alphabet-size", len(alpha))
	vSample("required-sets", len(reqs))
	overlap := false
	for i := range reqs {
		for j := i + 1; j < len(reqs); j++ {
			for _, c := range reqs[i] {
				if h02Has(reqs[j], c) {
					overlap = true
				}
			}
		}
	}
	if overlap {
		vReach("overlapping-required-sets")
	}
	var want *bigInt
	if big == 0 {
		want = h07Count(alpha, reqs, r.Length)
		// cross-check the reference by the independent closed form
		vAssert(want.Cmp(h07CountIE(alpha, reqs, r.Length)) == 0, "reference error: DP and inclusion-exclusion disagree")
	} else {
		want = h07CountIE(alpha, reqs, r.Length)
	}
	if prime := vChoice("prime", vParam("primes", 1)); prime > 0 && len(r.RequireSets) > 0 {
		sib := h06Sibling(r, prime)
		sib.Entropy()
		vReach("primed")
	}
	rc := r
	rc.buildCharacterList()
	var got *bigInt
	var e1, e2 float32
	panicked := vTry(func() {
		got = rc.n()
		e1 = r.Entropy()
		e2 = r.Entropy()
	})
	vAssert(!panicked, "the entropy computation panicked")
	vReach("computed")
	if len(reqs) > 0 {
		vAssert(got.Cmp(want) == 0, "the library's count of satisfying strings differs from the exact count")
	}
	vAssert(e1 == e1, "Entropy() is NaN")
	vAssert(math.Float32bits(e1) == math.Float32bits(e2), "Entropy() differs between two calls")
	if want.Sign() == 0 {
		vAssert(math.IsInf(float64(e1), -1), "Entropy() is not -Inf although no string satisfies the recipe")
		vReach("impossible")
		return
	}
	vAssert(h07Close(e1, h07Log2(want)), "Entropy() is not log2 of the exact count to float32 precision")
	if len(reqs) == 0 {
		vAssert(h07Close(e1, float64(r.Length)*math.Log2(float64(len(alpha)))), "Entropy() without requirements is not Length*log2(size)")
	}
}

type bigInt = big.Int

func h08Bits(f float32) uint32  { return math.Float32bits(f) }
func h08Log2(x float64) float64 { return math.Log2(x) }
