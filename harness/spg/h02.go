package spg

import (
	"sort"
	"strings"
)

// C02 / C03 / C06(char) / C13c — character recipes against a reference sampler.
//
// The recipe is chosen from a stated family (class flags symbolic, custom
// strings from a probe list that contains members of every class, of the
// ambiguous set, multi-byte characters, duplicates and overlaps); the random
// draws are symbolic (summary of the kernel verified by C01).

var h02Classes = []struct {
	f CTFlag
	s string
}{
	{Uppers, "ABCDEFGHIJKLMNOPQRSTUVWXYZ"},
	{Lowers, "abcdefghijklmnopqrstuvwxyz"},
	{Digits, "0123456789"},
	{Symbols, "!@.-_*"},
	{Ambiguous, "0O1Il5S"},
}

// probe strings for AllowChars / ExcludeChars
// (the last one: characters above U+00FF whose low byte is '0' resp. 'a')
var h02Strings = []string{"", "a", "0a5", "é!é", "✓Z", "O0", "ab", "xyz!", "İš"}

// probe families for RequireSets
var h02ReqSets = [][]string{
	nil,
	{"0"},
	{"a", "5é"},
	{"", "ab"},
	{"ab", "bc"},
	{"✓", "!@", "Z"},
	{"0123456789"},
	{"aa"},
	{"Il1", "0123456789"}, // with Exclude: Ambiguous the first is emptied, the second partly excluded
	{"7", "7"},            // two equal required sets
	{"ab", "ba"},          // equal as sets
}

func h02Chars(s string) []string { return strings.Split(s, "") }

func h02Has(set []string, c string) bool {
	for _, x := range set {
		if x == c {
			return true
		}
	}
	return false
}

func h02Add(set []string, cs ...string) []string {
	for _, c := range cs {
		if !h02Has(set, c) {
			set = append(set, c)
		}
	}
	return set
}

func h02Minus(a, b []string) []string {
	var out []string
	for _, c := range a {
		if !h02Has(b, c) {
			out = append(out, c)
		}
	}
	return out
}

// h02Ref computes, without maps or the library's set code, the alphabet
// (sorted), the effective required sets (non-empty after exclusion) and the
// excluded characters of a recipe.
func h02Ref(r CharRecipe) (alpha []string, reqs [][]string, excluded []string) {
	alpha, reqs, excluded = h02Ref0(r)
	sort.Strings(alpha)
	return
}

func h02Ref0(r CharRecipe) (alpha []string, reqs [][]string, excluded []string) {
	var allowed []string
	allowed = h02Add(allowed, h02Chars(r.AllowChars)...)
	excluded = h02Add(excluded, h02Chars(r.ExcludeChars)...)
	var rawReqs [][]string
	for _, s := range r.RequireSets {
		if len(s) > 0 {
			rawReqs = append(rawReqs, h02Add(nil, h02Chars(s)...))
		}
	}
	for _, c := range h02Classes {
		if r.Allow&c.f != 0 {
			allowed = h02Add(allowed, h02Chars(c.s)...)
		}
		if r.Require&c.f != 0 {
			rawReqs = append(rawReqs, h02Chars(c.s))
		}
		if r.Exclude&c.f != 0 {
			excluded = h02Add(excluded, h02Chars(c.s)...)
		}
	}
	alpha = h02Minus(allowed, excluded)
	for _, q := range rawReqs {
		q = h02Minus(q, excluded)
		alpha = h02Add(alpha, q...)
		if len(q) > 0 {
			reqs = append(reqs, q)
		}
	}
	return
}

func h02Index(alpha []string, c string) int {
	for i, x := range alpha {
		if x == c {
			return i
		}
	}
	return -1
}

// h02Accept: does attempt k (draws k*L .. k*L+L-1) hit every required set?
// Built without branching on the draws.
func h02Accept(alpha []string, reqs [][]string, L, k int) bool {
	return h02AcceptAt(alpha, reqs, L, k, 0)
}

// h02AcceptAt: as h02Accept for a Generate call whose draws start at index base of the log.
func h02AcceptAt(alpha []string, reqs [][]string, L, k, base int) bool {
	ok := true
	for _, q := range reqs {
		hit := false
		for j := 0; j < L; j++ {
			d := vDraw(base + k*L + j)
			for _, c := range q {
				hit = vOr(hit, d == uint32(h02Index(alpha, c)))
			}
		}
		ok = vAnd(ok, hit)
	}
	return ok
}

func h02Recipe() CharRecipe {
	am := uint8(vParam("allowmask", 31))
	rm := uint8(vParam("requiremask", 31))
	em := uint8(vParam("excludemask", 31))
	var r CharRecipe
	r.Allow = CTFlag(vU8("allow") & am)
	r.Require = CTFlag(vU8("require") & rm)
	r.Exclude = CTFlag(vU8("exclude") & em)
	ns := vParam("strings", len(h02Strings))
	smin := vParam("stringmin", 0)
	r.AllowChars = h02Strings[smin+vChoice("allowchars", ns-smin)]
	r.ExcludeChars = h02Strings[vChoice("excludechars", vParam("xstrings", ns))]
	rmin := vParam("reqsetmin", 0)
	r.RequireSets = h02ReqSets[rmin+vChoice("requiresets", vParam("reqsets", len(h02ReqSets))-rmin)]
	r.Length = vLen("length", vParam("Lmin", 1), vParam("L", 2))
	return r
}

// H02: Generate against the reference sampler.
func H02() {
	r := h02Recipe()
	savedT, savedF := MaxTrials, MaxFailRate
	defer func() { MaxTrials, MaxFailRate = savedT, savedF }()
	MaxTrials = vLen("maxtrials", 1, vParam("T", 2))
	MaxFailRate = 1.0 // the pre-flight refusal is C13's subject, not this harness's
	L := r.Length

	// optionally, an earlier full call sequence on a sibling recipe whose
	// required sets are re-split (results must not depend on it)
	if prime := vChoice("prime", vParam("primes", 1)); prime > 0 && len(r.RequireSets) > 0 {
		sib := h06Sibling(r, prime)
		sib.Entropy()
		sib.Alphabet()
		sib.SuccessProbability()
		vReach("primed")
	}
	alpha, reqs, excluded := h02Ref(r)
	vSample("alphabet", strings.Join(alpha, ""))
	vSample("required", len(reqs))

	// --- alphabet (C02: no duplicates; C03: Alphabet() exact, sorted) ---
	rc := r
	chars := rc.buildCharacterList()
	vAssert(len(chars) == len(alpha), "the alphabet Generate draws from has a duplicate or differs in size from (allowed ∪ required) minus excluded")
	cs := append([]string(nil), chars...)
	sort.Strings(cs)
	for i := range cs {
		// alpha is sorted and duplicate-free by construction, so position-wise
		// equality of the sorted lists is set equality plus absence of duplicates
		vAssert(cs[i] == alpha[i], "the alphabet Generate draws from is not exactly (allowed ∪ required) minus excluded, each character once")
	}
	vAssert(r.Alphabet() == strings.Join(alpha, ""), "Alphabet() is not the sorted, duplicate-free set of characters that can appear")
	for _, c := range excluded {
		vAssert(h02Index(alpha, c) < 0, "reference error: excluded character in the reference alphabet")
	}

	vSummary(true)
	var p *Password
	var err error
	vDrawLimit(MaxTrials*L, "Generate makes more than MaxTrials attempts (more than MaxTrials*Length draws)")
	panicked := vTry(func() { p, err = r.Generate() })
	vDrawLimit(1<<30, "")
	vAssert(!panicked, "Generate panicked")
	vReach("returned")
	nd := vDrawCount()
	if len(alpha) == 0 {
		vAssert(err != nil && p == nil, "Generate returned a password for an empty alphabet")
		vAssert(nd == 0, "random draws were made for an empty alphabet")
		vReach("empty-alphabet")
		return
	}
	vAssert(!(p != nil && err != nil), "Generate returned both a password and an error")
	vAssert(p != nil || err != nil, "Generate returned neither a password nor an error")
	if err != nil && nd == 0 {
		// refused before any draw (length, pre-flight): C13 decides whether
		// the refusal is justified
		vReach("refused")
		return
	}
	// every draw selects one of the alphabet's characters
	for i := 0; i < nd; i++ {
		vAssert(vDrawNIs(i, uint32(len(alpha))), "a character is drawn from a range that is not the size of the alphabet")
	}
	vAssert(nd%L == 0 && nd >= L, "the number of draws is not Length per attempt")
	attempts := nd / L
	vAssert(attempts <= MaxTrials, "more attempts than MaxTrials")
	for k := 0; k < attempts-1; k++ {
		vAssert(!h02Accept(alpha, reqs, L, k), "a candidate that satisfies every requirement was discarded and redrawn")
	}
	last := attempts - 1
	if err != nil {
		vAssert(attempts == MaxTrials, "Generate gave up before using all permitted attempts")
		vAssert(!h02Accept(alpha, reqs, L, last), "Generate reported failure although the last candidate satisfies every requirement")
		vReach("exhausted")
		return
	}
	vReach("accepted")
	if attempts > 1 {
		vReach("accepted-after-retry")
	}
	vAssert(h02Accept(alpha, reqs, L, last), "a password that misses a required set was returned")
	toks := p.Tokens()
	vAssert(len(toks) == L, "the password does not have exactly Length tokens")
	pw := ""
	for j := 0; j < L; j++ {
		want := alpha[vDraw(last*L+j)]
		vAssert(toks[j].Type() == AtomType, "a character token is not an atom")
		vAssert(toks[j].Value() == want, "token j is not the alphabet character selected by draw j of the accepted attempt")
		pw += want
	}
	vAssert(p.String() == pw, "String() is not the concatenation of the tokens")
	vAssert(p.Entropy == r.Entropy(), "Password.Entropy differs from the recipe's Entropy()")
	vSample("password", p.String())
	if vParam("again", 0) == 1 {
		// a password stays what it was when further passwords are generated
		saved := make([]string, L)
		for j := range saved {
			saved[j] = toks[j].Value()
		}
		r.Generate()
		other := CharRecipe{Length: L, AllowChars: "xyz"}
		other.Generate()
		now := p.Tokens()
		vAssert(len(now) == L, "a returned password changed length when another password was generated")
		for j := range saved {
			vAssert(now[j].Value() == saved[j], "a returned password changed when another password was generated (its tokens alias reused memory)")
		}
		vReach("generated-again")
	}
}
