package spg

import "math"

// C13 — Generate fails only when the recipe cannot be honoured: an error,
// never a panic; SuccessProbability is the exact fraction; the pre-flight
// refusal follows the configured limit.

// H13a: the guards. Length is a symbolic int over its whole 64-bit range.
func H13a() {
	kind := vChoice("kind", 6)
	vSummary(true)
	var p *Password
	var err error
	var panicked bool
	switch kind {
	case 0: // character recipe, symbolic length, non-empty alphabet
		r := CharRecipe{Length: vInt("length"), Allow: Digits}
		vAssume(r.Length < 1)
		panicked = vTry(func() { p, err = r.Generate() })
	case 1: // character recipe, empty alphabet (Length 1..3; a symbolic length cannot pass through the float entropy)
		r := CharRecipe{Length: vLen("poslength", 1, 3), Allow: Digits, Exclude: Digits}
		panicked = vTry(func() { p, err = r.Generate() })
	case 2: // zero value
		r := CharRecipe{}
		panicked = vTry(func() { p, err = r.Generate() })
	case 3: // wordlist recipe without a list
		r := WLRecipe{Length: 3}
		panicked = vTry(func() { p, err = r.Generate() })
		vReach("nil-list")
	case 4: // zero-valued wordlist recipe
		r := WLRecipe{}
		panicked = vTry(func() { p, err = r.Generate() })
	case 5: // wordlist recipe, symbolic non-positive length
		wl, e := NewWordList([]string{"ab", "cd"})
		vAssume(e == nil)
		r := NewWLRecipe(vInt("length"), wl)
		vAssume(r.Length < 1)
		panicked = vTry(func() { p, err = r.Generate() })
	}
	vAssert(!panicked, "Generate panicked on a recipe that cannot be honoured")
	vAssert(err != nil, "Generate did not report an error for a recipe that cannot be honoured")
	vAssert(p == nil, "Generate returned a password together with the refusal")
	vAssert(vDrawCount() == 0, "random draws were made for a recipe that cannot be honoured")
	vReach("refused")
}

// H13n: NewWordList on an empty list is an error, never a panic.
func H13n() {
	var wl *WordList
	var err error
	panicked := vTry(func() { wl, err = NewWordList(nil) })
	vAssert(!panicked && err != nil && wl == nil, "NewWordList(nil) does not fail with an error")
	panicked = vTry(func() { wl, err = NewWordList([]string{}) })
	vAssert(!panicked && err != nil && wl == nil, "NewWordList(empty) does not fail with an error")
	vReach("refused")
}

// H13b: the pre-flight. Overlap patterns as in H07 (symbolic characters),
// including required sets emptied by exclusion (which the filter ignores).
func H13b() {
	r := h07Recipe()
	r.Length = vLen("length", 1, vParam("L", 3))
	if vParam("bigL", 0) == 1 {
		// alphabet^Length beyond float64 range
		r.Length = []int{171, 172, 1000}[vChoice("biglength", 3)]
	}
	savedT, savedF := MaxTrials, MaxFailRate
	defer func() { MaxTrials, MaxFailRate = savedT, savedF }()
	MaxTrials = []int{1, 3, 200}[vChoice("maxtrials", 3)]

	alpha, reqs, _ := h02Ref0(r)
	if len(alpha) == 0 {
		vReach("empty-alphabet")
		return
	}
	valid := h07Count(alpha, reqs, r.Length)
	if prime := vChoice("prime", vParam("primes", 1)); prime > 0 && len(r.RequireSets) > 0 {
		sib := h06Sibling(r, prime)
		sib.SuccessProbability()
		vReach("primed")
	}
	var sp float32
	var acceptable bool
	panicked := vTry(func() {
		sp = r.SuccessProbability()
		acceptable, _ = r.hasAcceptableFailRate()
	})
	vAssert(!panicked, "SuccessProbability panicked")
	vAssert(sp == sp, "SuccessProbability() is NaN")
	vReach("computed")
	var exact float64
	if valid.Sign() > 0 {
		exact = math.Exp2(h07Log2(valid) - float64(r.Length)*math.Log2(float64(len(alpha))))
	}
	vSample("exact-success-probability", exact)
	// SuccessProbability is 2^(difference of two float32 entropies): its relative
	// error is bounded by ln2 times the float32 resolution at those entropies.
	// The decision is asserted only where it is the same for every value within
	// that resolution (the rest is float rounding territory).
	entBits := float64(r.Length) * math.Log2(float64(len(alpha)))
	delta := 1.4 * float64(math.Float32frombits(math.Float32bits(float32(entBits))+1)-float32(entBits))
	if delta < 1e-3 {
		delta = 1e-3
	}
	vAssert(math.Abs(float64(sp)-exact) <= delta*exact+1e-7, "SuccessProbability() is not the exact fraction of candidates that satisfy the requirements")
	pHi := math.Min(1, exact*(1+delta))
	pLo := exact * (1 - delta)
	failLo := math.Pow(1-pHi, float64(MaxTrials))
	failHi := math.Pow(1-pLo, float64(MaxTrials))
	if failHi <= MaxFailRate/4 {
		vAssert(acceptable, "a recipe whose failure chance is comfortably below the limit is refused")
		vReach("comfortably-acceptable")
	}
	if failLo >= 4*MaxFailRate {
		vAssert(!acceptable, "a recipe whose failure chance is far above the limit is accepted")
		vReach("clearly-unacceptable")
	}
	// Generate refuses before drawing exactly when the pre-flight says so
	if MaxTrials <= 3 && r.Length <= 8 {
		vSummary(true)
		var p *Password
		var err error
		pg := vTry(func() { p, err = r.Generate() })
		vAssert(!pg, "Generate panicked")
		refused := err != nil && vDrawCount() == 0
		vAssert(refused == !acceptable, "Generate's refusal does not follow the acceptable-failure-rate decision")
		vAssert(vDrawCount() <= MaxTrials*r.Length, "Generate made more than MaxTrials attempts")
		vAssert(!(p != nil && err != nil), "Generate returned both a password and an error")
	}
}
