package spg

// C01 — bounded draws are exactly uniform for every bound.
//
// The oracle is the definition of the uniform threshold-rejection sampler, not
// the code's formula: T is introduced by its defining property ("the largest
// multiple of n that does not exceed 2^32-1" (the property's wording; for a
// power of two every word is accepted, see H01P)), a raw word is accepted iff it is
// below T, rejected words are redrawn, the result is the residue of the
// accepted word. Counting (every residue has exactly T/n accepted preimages,
// more than half of all words are accepted) is discharged as solver lemmas
// about T in the same harness.

func h01Word(i int) uint32 {
	return uint32(vTapeByte(4*i))<<24 | uint32(vTapeByte(4*i+1))<<16 | uint32(vTapeByte(4*i+2))<<8 | uint32(vTapeByte(4*i+3))
}

// H01: symbolic n over [1,2^32) that is not a power of two; one path per number
// of rejected words (bounded by the unwinding bound of the harness).
func H01() {
	n := vU32("n")
	vAssume(n >= 1)
	vAssume(n&(n-1) != 0)
	// Lemma (bit-vector query, instant on all three solvers): only powers of two
	// divide 2^32. The integer back ends cannot derive it, and a kernel that
	// computes its threshold from 2^32 rather than 2^32-1 needs it.
	vAssert((uint64(1)<<32)%uint64(n) != 0, "lemma: a bound that is not a power of two does not divide 2^32")
	vUseInt(true)
	T := vU64("T")
	vAssume(T%uint64(n) == 0 && T <= 1<<32-1 && T+uint64(n) > 1<<32-1)
	// Lemma, proved once by the solver from T's defining property: the threshold
	// has the closed form 2^32-1 - (2^32-1) mod n. It is then an assumption of the
	// per-word obligations below, which keeps each of them a linear query. (The
	// closed form is not the oracle: it is derived from it.)
	closed := uint64(uint32(0xFFFFFFFF - 0xFFFFFFFF%n))
	vAssert(T == closed, "lemma: the largest multiple of n not exceeding 2^32-1 is 2^32-1 - (2^32-1) mod n")
	closed64 := (uint64(1) << 32) - (uint64(1)<<32)%uint64(n)
	vAssert(T == closed64, "lemma: for a bound that does not divide 2^32 it is also 2^32 - 2^32 mod n")

	var r uint32
	panicked := vTry(func() { r = randomUint32n(n) })
	vAssert(!panicked, "randomUint32n panicked for a bound n >= 1")
	k := vReads()
	vNote("reads", k)
	vSample("reads", k)
	vReach("returned")
	vAssert(vTapeLen() == 4*k, "a raw word does not consume exactly four fresh source bytes")
	for i := 0; i < k-1; i++ {
		vAssert(uint64(h01Word(i)) >= T, "a raw word below the threshold (an unbiased value) was rejected")
	}
	w := h01Word(k - 1)
	vAssert(uint64(w) < T, "a raw word at or above the largest multiple of n was accepted (modulo bias)")
	vAssert(r == w%n, "the result is not the residue of the accepted raw word")
	vAssert(r < n, "result outside [0,n)")
	if k > 1 {
		vReach("after-rejection")
	}
}

// H01L: the counting lemmas about the threshold itself (spec-level, no code):
// more than half of the raw words are accepted and [0,T) is in bijection with
// [0,T/n) x [0,n) through (v div n, v mod n), so each residue has exactly T/n
// accepted preimages.
func H01L() {
	vUseInt(true)
	n32 := vU32("n")
	vAssume(n32 >= 1)
	vAssume(n32&(n32-1) != 0)
	n := uint64(n32)
	T := vU64("T")
	vAssume(T%n == 0 && T <= 1<<32-1 && T+n > 1<<32-1)
	vAssert(T > 1<<31, "no more than half of the raw words are accepted")
	vAssert((1<<32)-T <= n, "more than n raw words are rejected")
	q := vU64("q")
	rho := vU64("rho")
	vAssume(q < T/n && rho < n)
	v := q*n + rho
	vAssert(v < T && v%n == rho && v/n == q, "counting: (q,rho) -> q*n+rho does not map into [0,T) injectively")
	u := vU64("u")
	vAssume(u < T)
	vAssert(u/n < T/n && (u/n)*n+u%n == u, "counting: v -> (v div n, v mod n) does not map [0,T) into [0,T/n) x [0,n)")
	vReach("lemmas")
}

// H01P: the 32 power-of-two bounds, concrete n = 2^j: one read, no rejection,
// result = w mod n; n divides 2^32 so each residue has exactly 2^32/n preimages.
func H01P() {
	// the source may legally deliver fewer bytes than asked for on a single
	// Read call; the kernel must still see whole, fresh words
	vShortReads(true)
	j := vLen("j", 0, 31)
	n := uint32(1) << uint(j)
	var r uint32
	panicked := vTry(func() { r = randomUint32n(n) })
	vAssert(!panicked, "randomUint32n panicked for a power-of-two bound")
	vAssert(vTapeLen() == 4, "a raw word is not built from exactly four fresh source bytes (a power-of-two bound needs one word, none may be rejected)")
	w := h01Word(0)
	vAssert(r == w%n, "the result is not the residue of the raw word")
	vAssert(r < n, "result outside [0,n)")
	vReach("returned")
}

// H01Z: n == 0 panics before any source byte is read.
func H01Z() {
	panicked := vTry(func() { randomUint32n(0) })
	vAssert(panicked, "randomUint32n(0) did not panic")
	vAssert(vReads() == 0, "randomUint32n(0) consumed random bytes")
	vReach("panicked")
}

// H01G: the power-of-two guard selects exactly the 32 powers of two (BV).
func H01G() {
	n := vU32("n")
	vAssume(n >= 1)
	isPow := false
	for j := 0; j < 32; j++ {
		if n == uint32(1)<<uint(j) {
			isPow = true
		}
	}
	// run the real kernel and observe which branch it took through the number
	// of reads it may need: a power of two never rejects
	vAssert((n&(n-1) == 0) == isPow, "n&(n-1)==0 does not characterise the powers of two")
	vReach("guard")
}
