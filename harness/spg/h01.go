package spg

// C01 — bounded draws are exactly uniform for every bound.
//
// The oracle is the definition of the uniform threshold-rejection sampler, not
// the code's formula: T is introduced by its defining property ("the largest
// multiple of n that does not exceed 2^32-1" (the property's wording; for a
// power of two every word is accepted, see H01P)), a raw word is accepted iff it is
// below T, rejected words are redrawn, the result is the residue of the
// accepted word. Counting (every residue has exactly T/n accepted preimages,
// more than half of all words are accepted) is discharged as solver lemmas
// about T in the same harness.

func h01Word(i int) uint32 {
	return uint32(vTapeByte(4*i))<<24 | uint32(vTapeByte(4*i+1))<<16 | uint32(vTapeByte(4*i+2))<<8 | uint32(vTapeByte(4*i+3))
}

// The three classical exactly-uniform rejection samplers over a 32-bit word.
// Each rejects exactly 2^32 mod n of the 2^32 raw words (the minimum that makes
// the rest divisible among n alternatives), so more than half are accepted,
// and each has its counting lemma in H01L:
//
//	famHigh  accept w <  2^32 - 2^32 mod n, result w mod n         (the pinned code)
//	famLow   accept w >= 2^32 mod n,        result w mod n         (arc4random_uniform)
//	famMul   accept lo32(w*n) >= 2^32 mod n, result hi32(w*n)      (Lemire's multiply-shift)
//
// Which one the code under test follows is read off two concrete probe draws
// with n = 3 (raw words 0 and 5 are scripted): famHigh accepts 0 and returns
// 0; the other two reject 0 and accept 5, returning 5 mod 3 = 2 and
// hi32(15) = 0. The probes only select the oracle; the symbolic obligations
// below are then asserted for every n and every raw word, so a kernel that
// follows none of the three fails them whatever the probes said.
const (
	famHigh = 0
	famLow  = 1
	famMul  = 2
)

func h01Family() (fam int, baseWords int) {
	vTapeScript(0, 5)
	var p uint32
	before := vReads()
	panicked := vTry(func() { p = randomUint32n(3) })
	used := vReads() - before
	vTapeScriptEnd()
	fam = famHigh
	if !panicked && used == 2 {
		if p == 2 {
			fam = famLow
		} else if p == 0 {
			fam = famMul
		}
	}
	vNote("sampler-family", fam)
	return fam, vTapeLen() / 4
}

// h01Accepts and h01Result are the oracle of family fam for bound n and raw
// word w; t = 2^32 mod n.
func h01Accepts(fam int, n uint32, w uint32, T uint64) bool {
	t := (uint64(1) << 32) % uint64(n)
	switch fam {
	case famLow:
		return uint64(w) >= t
	case famMul:
		return (uint64(w)*uint64(n))&0xFFFFFFFF >= t
	}
	return uint64(w) < T
}

func h01Result(fam int, n uint32, w uint32) uint32 {
	if fam == famMul {
		return uint32((uint64(w) * uint64(n)) >> 32)
	}
	return w % n
}

// H01: symbolic n over [1,2^32) that is not a power of two; one path per number
// of rejected words (bounded by the unwinding bound of the harness).
func H01() {
	fam, base := h01Family()
	n := vU32("n")
	vAssume(n >= 1)
	vAssume(n&(n-1) != 0)
	// Lemma (bit-vector query, instant on all three solvers): only powers of two
	// divide 2^32. The integer back ends cannot derive it, and a kernel that
	// computes its threshold from 2^32 rather than 2^32-1 needs it.
	vAssert((uint64(1)<<32)%uint64(n) != 0, "lemma: a bound that is not a power of two does not divide 2^32")
	vUseInt(true)
	T := vU64("T")
	vAssume(T%uint64(n) == 0 && T <= 1<<32-1 && T+uint64(n) > 1<<32-1)
	// Lemma, proved once by the solver from T's defining property: the threshold
	// has the closed form 2^32-1 - (2^32-1) mod n. It is then an assumption of the
	// per-word obligations below, which keeps each of them a linear query. (The
	// closed form is not the oracle: it is derived from it.)
	closed := uint64(uint32(0xFFFFFFFF - 0xFFFFFFFF%n))
	vAssert(T == closed, "lemma: the largest multiple of n not exceeding 2^32-1 is 2^32-1 - (2^32-1) mod n")
	closed64 := (uint64(1) << 32) - (uint64(1)<<32)%uint64(n)
	vAssert(T == closed64, "lemma: for a bound that does not divide 2^32 it is also 2^32 - 2^32 mod n")
	// Lemma: the 32-bit idiom -n % n is 2^32 mod n (the form in which the low
	// rejecting and the multiply-shift samplers compute their threshold).
	vAssert(uint64(-n%n) == (uint64(1)<<32)%uint64(n), "lemma: -n mod n in 32-bit arithmetic is 2^32 mod n")

	var r uint32
	before := vReads()
	panicked := vTry(func() { r = randomUint32n(n) })
	vAssert(!panicked, "randomUint32n panicked for a bound n >= 1")
	k := vReads() - before
	vNote("reads", k)
	vSample("reads", k)
	vReach("returned")
	vAssert(vTapeLen() == 4*(base+k), "a raw word does not consume exactly four fresh source bytes")
	for i := 0; i < k-1; i++ {
		vAssert(!h01Accepts(fam, n, h01Word(base+i), T), "a raw word that introduces no bias was rejected (more words are discarded than the 2^32 mod n that must be)")
	}
	w := h01Word(base + k - 1)
	vAssert(h01Accepts(fam, n, w, T), "a raw word that has to be discarded was accepted (modulo bias: the accepted words do not divide evenly among the n alternatives)")
	vAssert(r == h01Result(fam, n, w), "the result is not the alternative that the accepted raw word selects (residue, or high word of the product)")
	vAssert(r < n, "result outside [0,n)")
	if k > 1 {
		vReach("after-rejection")
	}
}

// H01L: the counting lemmas about the threshold itself (spec-level, no code):
// more than half of the raw words are accepted and [0,T) is in bijection with
// [0,T/n) x [0,n) through (v div n, v mod n), so each residue has exactly T/n
// accepted preimages.
func H01L() {
	vUseInt(true)
	n32 := vU32("n")
	vAssume(n32 >= 1)
	vAssume(n32&(n32-1) != 0)
	n := uint64(n32)
	T := vU64("T")
	vAssume(T%n == 0 && T <= 1<<32-1 && T+n > 1<<32-1)
	vAssert(T > 1<<31, "no more than half of the raw words are accepted")
	vAssert((1<<32)-T <= n, "more than n raw words are rejected")
	q := vU64("q")
	rho := vU64("rho")
	vAssume(q < T/n && rho < n)
	v := q*n + rho
	vAssert(v < T && v%n == rho && v/n == q, "counting: (q,rho) -> q*n+rho does not map into [0,T) injectively")
	u := vU64("u")
	vAssume(u < T)
	vAssert(u/n < T/n && (u/n)*n+u%n == u, "counting: v -> (v div n, v mod n) does not map [0,T) into [0,T/n) x [0,n)")
	vReach("lemmas")
}

// H01LB: the counting lemma of the low-rejecting sampler (accept w >= t,
// t = 2^32 mod n, result w mod n): with 2^32 = q*n + t, the accepted words of
// residue rho are rho + k*n for exactly q consecutive k (from 0 when rho >= t,
// from 1 when rho < t), so every residue has q accepted words, q*n in all,
// more than half of the 2^32.
func H01LB() {
	vUseInt(true)
	n32 := vU32("n")
	vAssume(n32 >= 1)
	n := uint64(n32)
	t := vU64("t")
	q := vU64("q")
	vAssume(t < n)
	vAssume(q <= 1<<32)
	vAssume(q*n+t == 1<<32)
	vAssert(t == (uint64(1)<<32)%n, "q*n + t = 2^32 with t < n does not make t the remainder")
	vAssert(q*n > 1<<31, "low rejection: no more than half of the raw words are accepted")
	rho := vU64("rho")
	k := vU64("k")
	vAssume(rho < n)
	vAssume(k < 1<<32)
	var k0 uint64
	if rho < t {
		k0 = 1
	}
	v := rho + k*n
	inBlock := k >= k0
	if k >= k0+q {
		inBlock = false
	}
	accepted := v >= t
	if v >= 1<<32 {
		accepted = false
	}
	vAssert(inBlock == accepted, "counting (low rejection): the accepted words of residue rho are not rho + k*n for exactly q consecutive k")
	vReach("lemmas")
}

// H01LC: the counting lemma of the multiply-shift sampler (accept
// lo32(w*n) >= t, result hi32(w*n)): the accepted words with result r are the
// w whose product w*n lies in [r*2^32+t, (r+1)*2^32), an interval of length
// q*n, and any interval of that length holds exactly q multiples of n - the q
// consecutive words starting at ceil((r*2^32+t)/n).
func H01LC() {
	vUseInt(true)
	n32 := vU32("n")
	vAssume(n32 >= 1)
	n := uint64(n32)
	t := (uint64(1) << 32) % n
	q := (uint64(1) << 32) / n
	r := vU64("r")
	vAssume(r < n)
	a := r<<32 + t
	c := (a + n - 1) / n
	j := vU64("j")
	vAssume(j < q)
	w := c + j
	m := w * n
	vAssert(w < 1<<32 && m>>32 == r && m&0xFFFFFFFF >= t, "counting (multiply-shift): the j-th word from ceil((r*2^32+t)/n) is not an accepted word with result r")
	x := vU64("x")
	vAssume(x < 1<<32)
	mx := x * n
	vAssume(mx>>32 == r && mx&0xFFFFFFFF >= t)
	vAssert(x >= c && x-c < q, "counting (multiply-shift): an accepted word with result r is not among the q consecutive words from ceil((r*2^32+t)/n)")
	vReach("lemmas")
}

// H01P: the 32 power-of-two bounds, concrete n = 2^j: one read, no rejection,
// result = w mod n; n divides 2^32 so each residue has exactly 2^32/n preimages.
func H01P() {
	// the source may legally deliver fewer bytes than asked for on a single
	// Read call; the kernel must still see whole, fresh words
	fam, base := h01Family()
	vShortReads(true)
	j := vLen("j", 0, 31)
	n := uint32(1) << uint(j)
	var r uint32
	panicked := vTry(func() { r = randomUint32n(n) })
	vAssert(!panicked, "randomUint32n panicked for a power-of-two bound")
	vAssert(vTapeLen() == 4*base+4, "a raw word is not built from exactly four fresh source bytes (a power-of-two bound needs one word, none may be rejected)")
	w := h01Word(base)
	vAssert(r == h01Result(fam, n, w), "the result is not the alternative the raw word selects (its residue, or the high word of the product)")
	vAssert(r < n, "result outside [0,n)")
	vReach("returned")
}

// H01Z: n == 0 panics before any source byte is read.
func H01Z() {
	panicked := vTry(func() { randomUint32n(0) })
	vAssert(panicked, "randomUint32n(0) did not panic")
	vAssert(vReads() == 0, "randomUint32n(0) consumed random bytes")
	vReach("panicked")
}

// H01G: the power-of-two guard selects exactly the 32 powers of two (BV).
func H01G() {
	n := vU32("n")
	vAssume(n >= 1)
	isPow := false
	for j := 0; j < 32; j++ {
		if n == uint32(1)<<uint(j) {
			isPow = true
		}
	}
	// run the real kernel and observe which branch it took through the number
	// of reads it may need: a power of two never rejects
	vAssert((n&(n-1) == 0) == isPow, "n&(n-1)==0 does not characterise the powers of two")
	vReach("guard")
}
