package spg

import "unicode/utf8"

// C11 — the token index round-trips and is as compact as documented.

var vDigits = []string{"0", "1", "2", "3", "4", "5", "6", "7", "8", "9"}

func h11RoundTrip(ts Tokens, nch []int) {
	ent := float32(41.25)
	t := len(ts)
	var idx Indices
	var err error
	p1 := vTry(func() { idx, err = ts.MakeIndices() })
	vAssert(!p1, "MakeIndices panicked")
	vAssert(err == nil, "MakeIndices refused tokens that are 1..255 characters long")
	vReach("indexed")

	// documented size of the index
	allAtoms, allOneChar, alternating := true, true, t%2 == 1 && t >= 3
	for i, tok := range ts {
		if tok.Type() != AtomType {
			allAtoms = false
		}
		if nch[i] != 1 {
			allOneChar = false
		}
		if i%2 == 0 && tok.Type() != AtomType || i%2 == 1 && tok.Type() != SeparatorType {
			alternating = false
		}
	}
	switch {
	case allAtoms && allOneChar:
		vAssert(len(idx) == 1, "a character password does not get the one-byte index")
	case allAtoms || alternating:
		vAssert(len(idx) == t+1, "an all-atom or strictly alternating sequence does not get one byte per token plus one")
	default:
		vAssert(len(idx) == 2*t+1, "a general sequence does not get two bytes per token plus one")
	}

	// the index must stay valid while other passwords are indexed
	other := Tokens{Token{"zz", AtomType}, Token{"-", SeparatorType}, Token{"y", AtomType}, Token{"q", TokenType(0)}}
	oidx, _ := other.MakeIndices()
	_ = oidx
	p := Password{tokens: ts, Entropy: ent}
	pw := p.String()
	var out Password
	var err2 error
	p2 := vTry(func() { out, err2 = Tokenize(pw, idx, ent) })
	vAssert(!p2, "Tokenize panicked on an index made by MakeIndices")
	vAssert(err2 == nil, "Tokenize rejects the index MakeIndices produced for the same password")
	got := out.Tokens()
	vAssert(len(got) == t, "round trip changes the number of tokens")
	for i := range ts {
		vAssert(got[i].Value() == ts[i].Value(), "round trip changes a token value")
		vAssert(got[i].Type() == ts[i].Type(), "round trip changes a token type")
	}
	vAssert(out.Entropy == ent, "round trip changes the entropy")
	vReach("roundtrip")
}

// H11a: 1..t tokens, each 1..b symbolic bytes assumed to be valid UTF-8 (so
// 1- to 4-byte characters and every mixture arise from the decoder's own
// branches), symbolic type byte.
func H11a() {
	t := vLen("ntok", 1, vParam("t", 3))
	maxb := vParam("b", 3)
	anyType := vParam("anytype", 0)
	ts := make(Tokens, t)
	nch := make([]int, t)
	for i := 0; i < t; i++ {
		l := vLen("len"+vDigits[i], 1, maxb)
		s := vStr("tok"+vDigits[i], l)
		if vParam("anyutf", 0) == 0 {
			vAssume(utf8.ValidString(s))
		} else {
			// legacy-encoded text: ASCII mixed with bytes that are invalid in
			// every context (so that concatenating tokens cannot make two
			// invalid bytes into one valid character, which no character-count
			// index could undo); each such byte is one character
			for j := 0; j < len(s); j++ {
				c := s[j]
				vAssume(c < 0x80 || c == 0xC0 || c == 0xC1 || c >= 0xF5)
			}
		}
		// an invalid byte counts as one character, as in the library
		nch[i] = utf8.RuneCountInString(s)
		ty := vU8("type" + vDigits[i])
		if anyType == 0 {
			vAssume(ty <= 1)
		}
		ts[i] = Token{s, TokenType(ty)}
		if nch[i] != l {
			vReach("non-ascii")
		}
	}
	h11RoundTrip(ts, nch)
}

// H11b: one long token around the 255-character limit (ASCII or two-byte
// characters): up to 255 characters must encode and round-trip, 256 must be
// refused with an error, never encoded with a wrapped length byte.
func H11b() {
	n := 254 + vLen("over", 0, 2) // 254, 255, 256 characters
	wide := vLen("wide", 0, 1)
	var s string
	if wide == 0 {
		s = vStr("tok", n)
		for i := 0; i < len(s); i++ {
			vAssume(s[i] < 0x80)
		}
	} else {
		// n two-byte characters: U+00C0..U+00FF, second byte symbolic
		b := vStr("tok", n)
		for i := 0; i < n; i++ {
			vAssume(b[i]&0xC0 == 0x80)
			s += "\xc3" + b[i:i+1]
		}
	}
	second := vLen("second", 0, 3)
	ts := Tokens{Token{s, AtomType}}
	nch := []int{n}
	switch second {
	case 1:
		ts = append(ts, Token{"-", SeparatorType}, Token{"x", AtomType})
		nch = append(nch, 1, 1)
	case 2: // not alternating: needs the full index
		ts = append(ts, Token{"-", SeparatorType})
		nch = append(nch, 1)
	case 3: // the long token second, after a separator
		ts = Tokens{Token{"-", SeparatorType}, Token{s, AtomType}}
		nch = []int{1, n}
	}
	if n <= 255 {
		h11RoundTrip(ts, nch)
		return
	}
	var idx Indices
	var err error
	p1 := vTry(func() { idx, err = ts.MakeIndices() })
	vAssert(!p1, "MakeIndices panicked")
	vAssert(err != nil && idx == nil, "a token of 256 characters was encoded instead of being refused")
	vReach("refused")
}
