package spg

// H11c: passwords produced by the generators (symbolic draws) round-trip
// through MakeIndices and Tokenize: non-ASCII words and alphabets, constant,
// empty and functional separators.
func H11c() {
	kind := vChoice("generator", 2)
	vSummary(true)
	var p *Password
	var err error
	if kind == 0 {
		li := vChoice("list", 4)
		lists := [][]string{{"élan", "über", "naïve"}, {"ab", "cd"}, {"正確", "馬", "電池"}, {"a", "bb", "ccc"}}
		wl, e := NewWordList(lists[li])
		vAssume(e == nil)
		r := NewWLRecipe(vLen("length", 1, vParam("L", 2)), wl)
		r.Capitalize = []CapScheme{CSNone, CSFirst, CSOne}[vChoice("scheme", 3)]
		switch vChoice("separator", 5) {
		case 1:
			r.SeparatorChar = "-"
		case 2:
			r.SeparatorChar = "→"
		case 3:
			r.SeparatorFunc = SFDigits1
		case 4:
			r.SeparatorFunc = NewSFFunction(CharRecipe{Length: 2, AllowChars: "é✓!"})
		}
		p, err = r.Generate()
	} else {
		savedT, savedF := MaxTrials, MaxFailRate
		defer func() { MaxTrials, MaxFailRate = savedT, savedF }()
		MaxTrials, MaxFailRate = 1, 1.0
		rs := []CharRecipe{
			{Length: 3, AllowChars: "aé✓"},
			{Length: 2, Allow: Digits},
			{Length: 2, AllowChars: "äöü", Require: Digits, Exclude: Ambiguous},
		}
		r := rs[vChoice("recipe", len(rs))]
		p, err = r.Generate()
	}
	if err != nil {
		vReach("refused")
		return
	}
	vReach("generated")
	ts := p.Tokens()
	idx, e1 := ts.MakeIndices()
	vAssert(e1 == nil, "MakeIndices refuses a generated password")
	out, e2 := Tokenize(p.String(), idx, p.Entropy)
	vAssert(e2 == nil, "Tokenize rejects the index of a generated password")
	got := out.Tokens()
	vAssert(len(got) == len(ts), "round trip of a generated password changes the number of tokens")
	for i := range ts {
		vAssert(got[i].Value() == ts[i].Value(), "round trip of a generated password changes a token value")
		vAssert(got[i].Type() == ts[i].Type(), "round trip of a generated password changes a token type")
	}
	vAssert(out.Entropy == p.Entropy, "round trip of a generated password changes the entropy")
	allAtomsOneChar := true
	for _, t := range ts {
		if t.Type() != AtomType {
			allAtomsOneChar = false
		}
	}
	if kind == 1 && allAtomsOneChar {
		vAssert(len(idx) == 1, "a generated character password does not get the one-byte index")
	}
	vReach("roundtrip")
}
