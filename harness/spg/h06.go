package spg

import (
	"math"
	"strings"
)

// C06 — reported entropy never overstates.

// h06Sibling re-splits the required sets in ways that collide under a
// delimiter-ambiguous flattening (joined with a comma, concatenated, one set
// per character, joined with a blank). A computation that is a function of the
// recipe's current fields is unaffected by a prior call on such a sibling.
func h06Sibling(r CharRecipe, how int) CharRecipe {
	s := r
	switch how {
	case 1:
		s.RequireSets = []string{strings.Join(r.RequireSets, ",")}
	case 2:
		s.RequireSets = []string{strings.Join(r.RequireSets, "")}
	case 3:
		cs := h02Chars(strings.Join(r.RequireSets, ""))
		if len(cs) <= 4 {
			s.RequireSets = nil
			for _, c := range cs {
				s.RequireSets = append(s.RequireSets, c)
			}
		}
	case 4:
		s.RequireSets = []string{strings.Join(r.RequireSets, " ")}
	case 5, 6:
		// the same number of required sets with the same character counts, but
		// another overlap pattern: pairwise disjoint (5) or nested (6) - a value
		// remembered under a key made of sizes only would be handed to r
		const pool = "#$%&()+=<>[]{}^~|;?/"
		s.RequireSets = nil
		at := 0
		for _, q := range r.RequireSets {
			n := 0
			for range q {
				n++
			}
			if how == 6 {
				at = 0
			}
			if at+n > len(pool) {
				return r
			}
			s.RequireSets = append(s.RequireSets, pool[at:at+n])
			at += n
		}
	}
	return s
}

// H06c: character recipes. Every valid string has probability at most
// 1/N_valid (C02: uniform over the N_valid valid strings, whole-candidate
// rejection), so Entropy() must not exceed log2(N_valid) - and meets it.
func H06c() {
	r := h02Recipe()
	if vParam("bigL", 0) == 1 {
		// counts beyond float64 range: 2^1024 is reached at Length 172 for 62 characters
		r.Length = []int{171, 172, 200, 1000}[vChoice("biglength", 4)]
	}
	alpha, reqs, _ := h02Ref(r)
	if len(alpha) == 0 {
		vReach("empty-alphabet")
		return
	}
	if prime := vChoice("prime", vParam("primes", 7)); prime > 0 && len(r.RequireSets) > 0 {
		sib := h06Sibling(r, prime)
		_ = sib.Entropy()
		vReach("primed")
	}
	valid := h07Count(alpha, reqs, r.Length)
	e := r.Entropy()
	vReach("computed")
	vAssert(e == e, "Entropy() is NaN")
	if valid.Sign() == 0 {
		vAssert(math.IsInf(float64(e), -1), "Entropy() is finite although no password can be generated")
		return
	}
	want := h07Log2(valid)
	vAssert(float64(e) <= want+1e-4*math.Max(1, want), "Entropy() overstates: some password is likelier than 2^-Entropy")
	vAssert(h07Close(e, want), "Entropy() is not met with equality although generation is uniform")
}

// h06Tokens runs Generate once and returns the tokens and the index range of
// its draws in the log.
func h06Run(r WLRecipe) (Tokens, int, int) {
	from := vDrawCount()
	p, err := r.Generate()
	vAssume(err == nil && p != nil)
	return p.Tokens(), from, vDrawCount()
}

// H06w: wordlist recipes. Two symbolic runs of the same recipe: equal token
// sequences force equal word and separator draws (and equal capitalisation
// draws when every word is capitalisable), hence no token sequence has more
// preimages than the capitalisation draws allow, and Entropy() must not exceed
// the log2 of the number of remaining draw vectors.
func H06w() {
	li := vChoice("list", vParam("lists", 9))
	input := h04Lists[li]
	wl, err := NewWordList(input)
	vAssume(err == nil)
	var r WLRecipe
	r.list = wl
	r.Length = vLen("length", 1, vParam("L", 2))
	r.Capitalize = h04Schemes[vChoice("scheme", len(h04Schemes))]
	sepKind := vChoice("separator", 3)
	sepDraws := 0
	switch sepKind {
	case 1:
		r.SeparatorChar = "-"
	case 2:
		r.SeparatorFunc = SFDigits1
		sepDraws = 1
	}
	allCap := h04AllCapitalizable(wl.words)
	L := r.Length
	vSummary(true)
	t1, a1, b1 := h06Run(r)
	t2, a2, b2 := h06Run(r)
	vAssert(b1-a1 == b2-a2, "two runs of one recipe make a different number of draws")
	n := b1 - a1 - sepDraws // the trailing draws belong to the entropy query
	// which draws are capitalisation draws
	ncap := 0
	switch r.Capitalize {
	case CSOne:
		ncap = 1
	case CSRandom:
		ncap = L
	}
	// equal token sequences?
	same := len(t1) == len(t2)
	eq := true
	if same {
		for i := range t1 {
			eq = vAnd(eq, vAnd(t1[i].Value() == t2[i].Value(), t1[i].Type() == t2[i].Type()))
		}
	}
	capEq, restEq := true, true
	for i := 0; i < n; i++ {
		d := vDraw(a1+i) == vDraw(a2+i)
		if i < ncap {
			capEq = vAnd(capEq, d)
		} else {
			restEq = vAnd(restEq, d)
		}
	}
	if same {
		// the same password from the same capitalisation choices means the same words and separators
		vAssert(!vAnd(eq, capEq) || restEq, "two different word/separator draw vectors give the same password: it is likelier than the entropy formula assumes")
		if allCap {
			vAssert(!eq || vAnd(capEq, restEq), "two different capitalisation choices give the same password although every word is capitalisable")
		}
		vReach("compared")
	}
	// the number of draw vectors the formula may count
	bits := 0.0
	for i := 0; i < n; i++ {
		if i >= ncap || allCap {
			bits += math.Log2(float64(vDrawN(a1 + i)))
		}
	}
	e := r.Entropy()
	vAssert(e == e, "Entropy() is NaN")
	vAssert(float64(e) <= bits+1e-4*math.Max(1, bits), "Entropy() overstates: it exceeds the log2 of the number of distinguishable draw vectors")
	vAssert(h07Close(e, bits), "Entropy() is below the min-entropy actually delivered")
	vSample("entropy", e)
}
