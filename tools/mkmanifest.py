#!/usr/bin/env python3
# Regenerates /verif/MANIFEST.json from the table below (kept in one place so that
# the manifest stays valid while checks are added).
import json, subprocess
props=[json.loads(l) for l in open('/verif/properties.jsonl')]
ids=[p['id'] for p in props]
TB="trusted base: the gosym executor written for this task (validated by `gosym selftest` and by native replay of every counterexample), golang.org/x/tools/go/ssa v0.29.0, z3 4.8.12 / z3 5.1.0 / cvc5 1.0; environment stubs of DESIGN.md §3.6; bounds as listed in the evidence file"
checks={
 "C14": dict(level="model_checking", ref="§5 C14, §7",
   text="Interleavings are not explored symbolically. What is decided is a sequential non-interference obligation on every explored path of every API call on shared values: the symbolic executor records the allocation epoch of every object and flags any store, map update, delete or in-place append made during the call into memory that existed before it (receiver backing arrays, word list, separator closure state, package-level variables). If no call writes shared memory, concurrent calls cannot conflict, so every interleaving is data-race free and each call returns what it returns alone (a standard argument, reasoned rather than solved). A flagged path is a candidate that is reported only after a native go test -race stress run on the same values reports a race or an invalid result.",
   technique="write-set (allocation-epoch) analysis during bounded symbolic execution of go/ssa; candidates confirmed natively under the race detector"),
 "C15": dict(level="model_checking", ref="§5 C15",
   text="Purity as two solver-checked obligations: (a) after every API call the caller-visible state (public fields, the RequireSets backing array, the slice given to NewWordList, the word list) equals its value before the call; (b) history independence: for families of lookalike recipes the results of Entropy, Alphabet, SuccessProbability and Generate after an arbitrary earlier call sequence on another recipe, or after a caller-side field update, equal the results on a freshly constructed recipe, with the draws of the two Generate calls aligned so that equality is decided for all draw values.",
   technique="bounded symbolic execution of go/ssa + SMT (QF_BV), two-run comparison with aligned draws, native replay"),
 "C18": dict(level="model_checking", ref="§5 C18",
   text="Explicit information flow: every value derived from a random draw (terms over draw variables, strings selected through a draw, messages formatted from them) carries taint through the symbolic execution; on every explored path of accepted, retried, exhausted and refused generations no argument of an output sink (fmt.Print*, Fprint*, log.*, os.File.Write, println) is tainted, and the diagnostics that occur are the three known ones. Native replay captures stdout, stderr and the log and searches for the password, its atoms, separators and the rejected candidates.",
   technique="taint tracking during bounded symbolic execution of go/ssa; native replay with captured output"),
 "C06": dict(level="model_checking", ref="§5 C06",
   text="Ties the reported number to the draws actually made. Wordlist recipes: two symbolic executions of Generate on one recipe; the solver shows that equal token sequences force equal word and separator draws (and equal capitalisation draws when every word is capitalisable), so no password has more preimages than the formula allows, and Entropy() is compared with log2 of the product of the draw bounds read off the draw log. Character recipes: Entropy() against log2 of the exact number of valid strings, which by C02 are equally likely, also after a call on a sibling recipe (catches stale values). Password.Entropy == recipe.Entropy() on every accepted path of the generation harnesses.",
   technique="bounded symbolic execution of go/ssa + SMT (QF_BV), two-run injectivity queries over the draw log; float arithmetic concrete per path"),
 "C09": dict(level="model_checking", ref="§5 C09",
   text="The generators run in tape mode: the real randomUint32/randomUint32n are executed on symbolic source bytes, and the stub of the OS source fails at a harness-chosen read (every position within the bound) delivering 0..3 bytes, or returns short successful reads when the code calls the Reader directly. Assertions: after a failed read the call panics or returns an error and no password; every random word is built from four fresh bytes; two runs of one recipe on one stream agree. A path that reaches an unmodelled environment function (math/rand, time, ...) is stopped and reported, and a native determinism run (same recipe, same bytes, twice) is the confirmation channel for it.",
   technique="bounded symbolic execution of go/ssa + SMT (QF_BV) with fault injection at every read position; native replay and native determinism run"),
 "C08": dict(level="model_checking", ref="§5 C08",
   text="NewWordList, WLRecipe.Entropy, Size and isAllCapitalizable are executed from their SSA with every map iteration order inside NewWordList as an explicit choice point, on lists of symbolic ASCII words (duplicates, twins, caseless and already-capitalised words arise as solver-feasible forks) and on concrete lists with non-ASCII, multi-part and interior-capital words; the list is built twice and from a permuted/repeated copy, and all Entropy() values must be bit-identical and equal the reference formula evaluated on the reference kept set.",
   technique="bounded symbolic execution of go/ssa + SMT (QF_BV) with map-iteration order as a choice point; order-dependent counterexamples replayed natively until the runtime produces the order"),
 "C10": dict(level="model_checking", ref="§5 C10",
   text="NewWordList is executed from its SSA on lists of symbolic ASCII words and on concrete non-ASCII lists, for every iteration order of its maps and for reversed, rotated and repeated copies of the input: kept words = one copy of each distinct word minus capitalised twins (map-free reference), Size() equal, caller's slice untouched, empty list an error, and a generated word (symbolic draw) is a kept word or its title-cased form.",
   technique="bounded symbolic execution of go/ssa + SMT (QF_BV) with map-iteration order as a choice point, native replay"),
 "C07": dict(level="model_checking", ref="§5 C07",
   text="CharRecipe.n, n, unionAll, entropyWithRequired, Entropy and golang-set (incl. PowerSet) run from their SSA on custom sets whose characters are symbolic bytes: set construction forks on every character equality, so every overlap pattern of allowed and required sets is a path whose feasibility the solver decided. On each path the library's exact big-integer count is compared with an independent subset-automaton DP (cross-checked by a second closed form), and Entropy() with log2 of that count by a different route, for small lengths and for lengths 1000/5000; NaN, -Inf and repeatability are asserted.",
   technique="bounded symbolic execution of go/ssa + SMT (QF_BV) over symbolic set members; big-integer/float arithmetic concrete per path"),
 "C13": dict(level="model_checking", ref="§5 C13",
   text="Generate's guards are executed with a symbolic Length over the whole non-positive 64-bit range and on zero-valued / list-less recipes (a nil dereference is a solver-checked panic condition); SuccessProbability and the pre-flight decision are compared with the exact fraction on every overlap pattern of the C07 family (symbolic characters), and the retry loop runs with symbolic draws so that the stream on which every attempt fails is a solver-constructed path: never more than MaxTrials attempts, an error and no password when they are exhausted.",
   technique="bounded symbolic execution of go/ssa + SMT (QF_BV), native replay"),
 "C04": dict(level="model_checking", ref="§5 C04",
   text="WLRecipe.Generate (with NewWordList, the separator closures, sfWrap and the nested CharRecipe.Generate) is executed from its SSA over a family of word lists, lengths, schemes and separators with every random draw an SMT variable, and compared with the specified draw structure: one draw over the Length positions for 'one', one fair coin per position for 'random', one draw over the whole normalised list per word, one fresh separator per gap whose characters are draws over the separator alphabet, no draw reused, and the trailing draws of the entropy query not influencing the tokens. With C01 this is uniform and independent choice. Lengths 64..66 are included because position sets kept in machine words break exactly there.",
   technique="bounded symbolic execution of go/ssa + SMT (QF_BV) against the specified draw structure, native replay"),
 "C05": dict(level="model_checking", ref="§5 C05",
   text="Same exploration as C04 with the structural assertions on every returned password: exactly Length atoms, each the drawn word or - exactly at the positions the scheme selects - its title-cased form (strings.Title mapped over the word options of the symbolic draw), one separator token between adjacent atoms iff the separator is non-empty, none leading or trailing, String()/Atoms()/Separators() consistent. Boundary draws (last word, last position, empty separator) are values of symbolic variables.",
   technique="bounded symbolic execution of go/ssa + SMT (QF_BV), native replay; one known finding (empty word in the list) reported as KNOWN-FINDING"),
 "C02": dict(level="model_checking", ref="§5 C02",
   text="CharRecipe.Generate, buildCharacterList, requireFilter and golang-set are executed from their SSA for every recipe of a stated family (class flags symbolic, custom strings with duplicates, overlaps and multi-byte characters) with every random draw an SMT variable. A reference sampler written in the harness (duplicate-free alphabet; whole-candidate rejection; token j = alphabet[draw j of the accepted attempt]) is compared on the same draw log: exactly Length draws per attempt, each over the whole alphabet, a candidate is rejected iff it misses a required set, nothing is fixed up or reused. With C01 (each draw uniform on [0,n)) this is the uniform distribution on the valid strings. All draw values, including the last index and every accept/reject pattern within MaxTrials, are covered by the solver verdicts.",
   technique="bounded symbolic execution of go/ssa + SMT (QF_BV) against a reference sampler, native replay"),
 "C03": dict(level="model_checking", ref="§5 C03",
   text="Same exploration as C02 with the validity assertions: Length one-character atom tokens, every character in (allowed ∪ required) minus excluded computed by a map-free reference, every required set that keeps a member is hit, Alphabet() sorted and exact. Thorough tier runs all 2^15 class-flag combinations. The draws are symbolic, so the rare draw (last alphabet index, a candidate meeting one of several requirements) is a value of a variable, not a sample.",
   technique="bounded symbolic execution of go/ssa + SMT (QF_BV), native replay"),
 "C11": dict(level="model_checking", ref="§5 C11",
   text="MakeIndices, Kind and Tokenize (with strings.Split and the utf8 decoder from their own SSA) are executed symbolically on token sequences whose bytes and type bytes are SMT variables constrained only to be valid UTF-8; the round trip (values, types, entropy) and the documented index size are assertions decided for every byte value, so the byte-versus-character and uint8-truncation cases that no example-based test enumerates are covered within the stated token counts and lengths, including the 254/255/256-character boundary.",
   technique="bounded symbolic execution of go/ssa + SMT (QF_BV), native replay"),
 "C01": dict(level="model_checking", ref="§5 C01",
   text="The real randomUint32n/randomUint32/BigEndian.Uint32 are executed symbolically with the bound n (all 2^32-1 values) and every raw source byte as SMT variables. The oracle is the definition of the uniform threshold-rejection sampler (threshold = largest multiple of n not exceeding 2^32-1, introduced by its defining property, not by the code's formula); acceptance, redraw and residue are asserted per path, and the counting facts (more than half accepted, [0,T) in bijection with [0,T/n) x [0,n)) are discharged as QF_NIA lemmas for every n. The rejection loop is unrolled to a stated number of consecutive rejections, hence bounded model checking, not proof.",
   technique="bounded symbolic execution of go/ssa + SMT (integer encoding with explicit mod 2^32 on z3 5.1/cvc5; QF_BV for the power-of-two cases), native replay"),
 "C12": dict(level="model_checking", ref="§5 C12",
   text="Bounded symbolic execution of the real Tokenize (and strings.Split/utf8 from their own SSA) with the password bytes and the index bytes as SMT variables: every Go run-time panic condition and every assertion of the specification is a solver query, so within the stated lengths the verdict covers every byte value, every kind byte and every parity - the inputs a test suite cannot enumerate. Bounded (lengths), hence model checking rather than proof.",
   technique="bounded symbolic execution of go/ssa + SMT (QF_BV), counterexamples replayed natively"),
}
na_reason={}
hooks_commits=subprocess.run(["git","-C","/repo","log","--format=%h","--grep=^verif:"],capture_output=True,text=True).stdout.split()
m={"version":1,
 "setup_cmd":"cd /verif/engine && GOFLAGS=-mod=mod GOPROXY=off GOSUMDB=off GOTOOLCHAIN=local go build -o /verif/bin/gosym . && /verif/bin/gosym selftest",
 "hooks":{"guard":"verif","enable":"the engine loads /repo with build tag verif (go/packages BuildFlags -tags=verif); native replays: go test -tags verif -overlay <harness overlay>","baseline_off_cmd":"cd /repo && GOFLAGS=-mod=mod GOPROXY=off go test -vet=off -count=1 ./...","source_commits":hooks_commits,"add_only":True},
 "engines":[{"name":"gosym","path":"/verif/engine","serves_properties":sorted(checks.keys()),"kind_free_text":"symbolic executor for Go SSA (golang.org/x/tools/go/ssa) with SMT back ends (z3, z3-new, cvc5); path-by-path exploration by re-execution, native replay of counterexamples"}],
 "checks":[],
 "notes":"All checks: /verif/check <id> quick|thorough. INCONCLUSIVE lines (solver unknown, unmodelled callee, cut paths, non-reproducing counterexample) exit 0 and are listed in the evidence file; VIOLATION only after native replay. See DESIGN.md.",
 "not_applicable":[]}
for i in ids:
    if i in checks:
        c=checks[i]
        m["checks"].append({"property_id":i,"quick_cmd":"/verif/check %s quick"%i,"thorough_cmd":"/verif/check %s thorough"%i,
          "evidence_file":"/verif/evidence/%s.json"%i,"replay_cmd_template":"/verif/bin/gosym replay {path}","engine":"gosym",
          "level_claimed":{"category":c["level"],"text":c["text"],"design_ref":c["ref"]},"level_note":c.get("note",TB),"technique":c["technique"]})
    else:
        m["not_applicable"].append({"property_id":i,"reason":na_reason.get(i,"check not built yet (work in progress; planned per DESIGN.md §5)")})
json.dump(m,open('/verif/MANIFEST.json','w'),indent=1)
print("checks:",[c["property_id"] for c in m["checks"]])
