#!/bin/bash
# Parallel variant of matrix.sh: N shards, each with its own scratch clone of /repo
# (VERIF_REPO) and its own set of properties (so that replay files never collide).
# usage: matrix_par.sh [tier] [shards]; writes $MATRIX_OUT (default /verif/seeded/MATRIX_ALL.txt)
tier=${1:-quick}; N=${2:-3}
filter=${MATRIX_FILTER:-.}
out=${MATRIX_OUT:-/verif/seeded/MATRIX_ALL.txt}
export GOSYM_EVIDENCE_DIR=/tmp/gosym-evidence-scratch; mkdir -p $GOSYM_EVIDENCE_DIR
: > $out.tmp
shard() {
  k=$1
  repo=/tmp/mrepo$k
  rm -rf $repo; git clone -q /repo $repo || exit 2
  export VERIF_REPO=$repo
  for d in ${SEEDED_DIR:-/verif/seeded}/*/; do
    name=$(basename $d)
    [ -f $d/patch.diff ] || continue
    echo "$name" | grep -Eq "$filter" || continue
    prop=$(python3 -c "import json;print(json.load(open('$d/meta.json'))['breaks_property'])")
    [ $(( 10#${prop#C} % N )) -eq $k ] || continue
    cd $repo && git apply $d/patch.diff 2>/dev/null || { echo "$name $prop PATCH-DOES-NOT-APPLY" >> $out.tmp; continue; }
    s=$(date +%s)
    timeout 1800 /verif/check $prop $tier > /tmp/matrix.$k.log 2>&1; rc=$?
    e=$(( $(date +%s) - s ))
    git -C $repo checkout -- . ; git -C $repo clean -fdq
    verdict=MISSED
    [ $rc -eq 1 ] && grep -q "^VIOLATION property=$prop" /tmp/matrix.$k.log && verdict=DETECTED
    [ $rc -eq 124 ] && verdict=TIMEOUT
    why=$(grep -m1 "^note: violation:" /tmp/matrix.$k.log | cut -c17-200)
    [ "$verdict" = MISSED ] && why=$(grep -m1 "^INCONCLUSIVE" /tmp/matrix.$k.log | cut -c1-200)
    echo "$name $prop $verdict ${e}s | $why" >> $out.tmp
  done
  rm -rf $repo /tmp/matrix.$k.log
}
for k in $(seq 0 $((N-1))); do shard $k & done
wait
sort $out.tmp > $out; rm -f $out.tmp
cat $out
