#!/bin/bash
# Runs the thorough tier of every registered check on the unchanged /repo, N at a time
# (each property in one shard only), evidence into /verif/evidence-thorough.
# usage: thorough_par.sh [shards] [per-check timeout seconds]
N=${1:-3}; T=${2:-5400}
export GOSYM_EVIDENCE_DIR=/verif/evidence-thorough; mkdir -p $GOSYM_EVIDENCE_DIR
export GOFLAGS=-mod=mod GOPROXY=off GOSUMDB=off GOTOOLCHAIN=local
out=/verif/evidence-thorough/RUN.txt
: > $out.tmp
ids=$(python3 -c "import json;print(' '.join(c['property_id'] for c in json.load(open('/verif/MANIFEST.json'))['checks']))")
shard() {
  k=$1
  for id in $ids; do
    [ $(( 10#${id#C} % N )) -eq $k ] || continue
    s=$(date +%s)
    timeout $T ${VERIF_DIR:-/verif}/bin/gosym check $id --tier thorough > /tmp/thorough.$id.log 2>&1; rc=$?
    e=$(( $(date +%s) - s ))
    echo "$id rc=$rc ${e}s $(grep -c '^INCONCLUSIVE' /tmp/thorough.$id.log) inconclusive, $(grep -c '^KNOWN-FINDING' /tmp/thorough.$id.log) known, $(grep -c '^VIOLATION' /tmp/thorough.$id.log) violations | $(grep -m1 -E '^(INCONCLUSIVE|VIOLATION)' /tmp/thorough.$id.log | cut -c1-200)" >> $out.tmp
  done
}
for k in $(seq 0 $((N-1))); do shard $k & done
wait
sort $out.tmp > $out; rm -f $out.tmp; cat $out
