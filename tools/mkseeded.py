#!/usr/bin/env python3
# Updates seeded/*/meta.json (detected_by) from the matrix files and prints the DESIGN §10 table.
import json, os, re, glob
rows={}
for f in ['/verif/seeded/MATRIX_ALL.txt']:
    if not os.path.exists(f): continue
    for l in open(f):
        m=re.match(r'(\S+) (\S+) (\S+)(?: (\d+)s)?(?: \| *(.*))?$', l.strip())
        if m: rows[m.group(1)]=(m.group(2),m.group(3),m.group(4) or '',(m.group(5) or '').strip())
out=[]
for d in sorted(glob.glob('/verif/seeded/*/')):
    name=os.path.basename(d.rstrip('/'))
    mp=d+'meta.json'
    if not os.path.exists(mp): continue
    meta=json.load(open(mp))
    prop,verdict,secs,why=rows.get(name,(meta['breaks_property'],'NOT-RUN','',''))
    why=re.sub(r'\(\d+ paths\)','',why).strip()
    meta['detected_by']=[{"check":prop,"tier":"quick","verdict":verdict,"seconds":secs,"first_message":why}]
    json.dump(meta,open(mp,'w'),indent=1)
    needs=meta['needs_to_manifest']
    out.append("| %s | %s | %s | %s | %s |"%(name,prop,needs,verdict.lower(),why[:150]))
print("| change | property | needs, to manifest | quick check | first message of the check |\n|---|---|---|---|---|")
print("\n".join(out))
