#!/bin/bash
export GOSYM_EVIDENCE_DIR=/tmp/gosym-evidence-scratch; mkdir -p $GOSYM_EVIDENCE_DIR
# Runs quick checks against a behaviour-preserving refactoring: any VIOLATION is a false alarm.
# usage: benign.sh <name> <id>...
name=$1; shift
d=/verif/benign/$name
cd /repo && git apply $d/patch.diff || { echo "$name: patch does not apply"; exit 2; }
trap 'git -C /repo checkout -- . ; git -C /repo clean -fdq' EXIT
for id in "$@"; do
  s=$(date +%s)
  timeout 1500 /verif/check $id quick > /tmp/benign.$$.log 2>&1; rc=$?
  e=$(( $(date +%s) - s ))
  v=$(grep -c '^VIOLATION' /tmp/benign.$$.log); i=$(grep -c '^INCONCLUSIVE' /tmp/benign.$$.log)
  verdict=quiet; [ $i -gt 0 ] && verdict=inconclusive; [ $v -gt 0 ] && verdict=FALSE-ALARM
  echo "$name $id $verdict rc=$rc ${e}s | $(grep -m1 -E '^(note: violation|INCONCLUSIVE)' /tmp/benign.$$.log | cut -c1-220)"
done
rm -f /tmp/benign.$$.log
