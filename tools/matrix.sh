#!/bin/bash
export GOSYM_EVIDENCE_DIR=/tmp/gosym-evidence-scratch; mkdir -p $GOSYM_EVIDENCE_DIR
# Runs every seeded change against the quick check of the property it breaks (and optional extra ids).
# usage: matrix.sh [tier] > results ; writes /verif/seeded/MATRIX.txt
tier=${1:-quick}
filter=${MATRIX_FILTER:-.}
out=${MATRIX_OUT:-/verif/seeded/MATRIX.txt}
: > $out.tmp
for d in ${SEEDED_DIR:-/verif/seeded}/*/; do
  name=$(basename $d)
  [ -f $d/patch.diff ] || continue
  echo "$name" | grep -Eq "$filter" || continue
  prop=$(python3 -c "import json;print(json.load(open('$d/meta.json'))['breaks_property'])")
  cd /repo && git apply $d/patch.diff 2>/dev/null || { echo "$name $prop PATCH-DOES-NOT-APPLY" >> $out.tmp; continue; }
  s=$(date +%s)
  timeout 1500 /verif/check $prop $tier > /tmp/matrix.$$.log 2>&1; rc=$?
  e=$(( $(date +%s) - s ))
  git -C /repo checkout -- . ; git -C /repo clean -fdq
  verdict=MISSED
  [ $rc -eq 1 ] && grep -q "^VIOLATION property=$prop" /tmp/matrix.$$.log && verdict=DETECTED
  [ $rc -eq 124 ] && verdict=TIMEOUT
  why=$(grep -m1 "^note: violation:" /tmp/matrix.$$.log | cut -c17-200)
  [ "$verdict" = MISSED ] && why=$(grep -m1 "^INCONCLUSIVE" /tmp/matrix.$$.log | cut -c1-200)
  echo "$name $prop $verdict ${e}s | $why" >> $out.tmp
done
mv $out.tmp $out
rm -f /tmp/matrix.$$.log
cat $out
