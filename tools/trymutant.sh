#!/bin/sh
export GOSYM_EVIDENCE_DIR=/tmp/gosym-evidence-scratch; mkdir -p $GOSYM_EVIDENCE_DIR
# usage: trymutant.sh <patch.diff> <tier> <id>...   — applies the patch to /repo, runs the checks, reverts.
patch=$1; tier=$2; shift 2
cd /repo || exit 2
git apply "$patch" || { echo "patch does not apply"; exit 2; }
trap 'git -C /repo checkout -- . ; git -C /repo clean -fdq' EXIT
for id in "$@"; do
  echo "== $id ($tier) against $(basename $(dirname $patch))/$(basename $patch)"
  /verif/check $id $tier > /tmp/trymutant.$$.log 2>&1; rc=$?
  grep -E "^(VIOLATION|KNOWN-FINDING|INCONCLUSIVE|HELD|note:)" /tmp/trymutant.$$.log | cut -c1-400 | head -12
  echo "exit=$rc"
  rm -f /tmp/trymutant.$$.log
done
