#!/bin/bash
# usage: confirm_mutant.sh <mutant dir (patch.diff + demo *_test.go)> <seeded name e.g. C01-m1> <property> "<needs>"
# Confirms in a scratch worktree of /repo HEAD: suite passes with the patch, demo fails with it, demo passes without it.
set -u
src=$1; name=$2; prop=$3; needs=$4
export GOFLAGS=-mod=mod GOPROXY=off GOSUMDB=off GOTOOLCHAIN=local
wt=/tmp/cm/$name
rm -rf $wt; mkdir -p /tmp/cm
git -C /repo worktree add --detach $wt HEAD >/dev/null 2>&1 || { echo "worktree failed"; exit 2; }
cleanup() { git -C /repo worktree remove --force $wt >/dev/null 2>&1; }
trap cleanup EXIT
cd $wt
if ! git apply $src/patch.diff 2>/tmp/cm/apply.err; then echo "RESULT $name: patch does not apply: $(head -2 /tmp/cm/apply.err)"; exit 1; fi
go build ./... || { echo "RESULT $name: does not compile"; exit 1; }
suite=ok
for i in 1 2; do go test -vet=off -count=1 ./... >/tmp/cm/suite.log 2>&1 || suite=FAIL; done
demos=$(ls $src/*_test.go 2>/dev/null)
[ -z "$demos" ] && { echo "RESULT $name: no demo test file"; exit 1; }
for d in $demos; do cp $d $wt/cmd/opgen/zz_demo_$(basename $d); done
runpat=$(grep -ho 'func Test[A-Za-z0-9_]*' $demos | sed 's/func //' | paste -sd'|')
go test -vet=off -count=1 -run "^($runpat)\$" ./cmd/opgen >/tmp/cm/demo_with.log 2>&1; with=$?
git checkout -- . 
go test -vet=off -count=1 -run "^($runpat)\$" ./cmd/opgen >/tmp/cm/demo_without.log 2>&1; without=$?
echo "RESULT $name: suite_with_patch=$suite demo_with_patch_exit=$with demo_without_patch_exit=$without"
if [ "$suite" = ok ] && [ $with -ne 0 ] && [ $without -eq 0 ]; then
  dst=/verif/seeded/$name; mkdir -p $dst
  cp $src/patch.diff $dst/patch.diff
  for d in $demos; do cp $d $dst/; done
  [ -f $src/README.md ] && cp $src/README.md $dst/README.md
  python3 - "$dst" "$prop" "$needs" "$runpat" "$(git -C /repo rev-parse --short HEAD)" <<'PY'
import json,sys
dst,prop,needs,runpat,head=sys.argv[1:6]
json.dump({"breaks_property":prop,"needs_to_manifest":needs,
 "confirmed":{"repo_head":head,"what_ran":["git apply patch.diff in a scratch worktree of /repo HEAD","go test -vet=off -count=1 ./... (x2): passes with the patch","go test -run '^(%s)$' . with the demo copied to the repo root: FAILS with the patch, PASSES without it"%runpat]},
 "detected_by":[]},open(dst+"/meta.json","w"),indent=1)
PY
  echo "KEPT $name"
else
  tail -5 /tmp/cm/demo_with.log | head -5
fi
