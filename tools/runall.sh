#!/bin/bash
# usage: runall.sh [quick|thorough] [ids...] — runs the registered checks, validates evidence
tier=${1:-quick}; shift
ids="$@"
[ -z "$ids" ] && ids=$(python3 -c "import json;print(' '.join(c['property_id'] for c in json.load(open('/verif/MANIFEST.json'))['checks']))")
for id in $ids; do
  s=$(date +%s)
  /verif/check $id $tier > /tmp/runall.$id.log 2>&1; rc=$?
  e=$(( $(date +%s) - s ))
  v=$(python3-vt -c "
import json,jsonschema,sys
try:
    jsonschema.validate(json.load(open('/verif/evidence/$id.json')),json.load(open('/root/.vp/EVIDENCE.schema.json'))); print('evidence-ok')
except Exception as ex: print('EVIDENCE-BAD', str(ex)[:100])")
  echo "$id rc=$rc ${e}s $v $(grep -c '^INCONCLUSIVE' /tmp/runall.$id.log) inconclusive, $(grep -c '^KNOWN-FINDING' /tmp/runall.$id.log) known, $(grep -c '^VIOLATION' /tmp/runall.$id.log) violations"
  grep -E '^(INCONCLUSIVE|VIOLATION)' /tmp/runall.$id.log | cut -c1-220 | head -4
  rm -f /tmp/runall.$id.log
done
