#!/bin/bash
# Runs quick checks against behaviour-preserving refactorings in a scratch clone of /repo
# with a scratch copy of /verif (own replays/evidence), so that it can run beside other work.
# usage: benign_par.sh <shard-name> <refactoring>... ; the checks are chosen from the files a patch touches.
# Any VIOLATION is a false alarm. Output lines: <name> <id> quiet|inconclusive|FALSE-ALARM rc=.. <secs>s | first line
tag=$1; shift
V=/tmp/vbenign-$tag; R=/tmp/brepo-$tag
rm -rf $V $R; mkdir -p $V
rsync -a --exclude .git --exclude seeded --exclude benign --exclude replays --exclude evidence /verif/ $V/
mkdir -p $V/replays $V/evidence
git clone -q /repo $R || exit 2
export VERIF_DIR=$V VERIF_REPO=$R GOFLAGS=-mod=mod GOPROXY=off GOSUMDB=off GOTOOLCHAIN=local
for name in "$@"; do
  d=/verif/benign/$name
  files=$(grep '^+++ b/' $d/patch.diff | sed 's#+++ b/##')
  ids=""
  for f in $files; do
    case $f in
      token.go|password.go) ids="$ids C11 C12 C04 C05 C17";;
      word_gen.go) ids="$ids C01 C04 C05 C06 C08 C09 C10 C11 C13 C14 C15 C16 C17 C18";;
      char_gen.go|char_sets.go) ids="$ids C01 C02 C03 C06 C07 C09 C13 C14 C15 C16 C17 C18";;
      util.go) ids="$ids C01 C02 C04 C09 C16 C14";;
      char_strength.go) ids="$ids C03 C06 C07 C13 C15";;
      cmd/opgen/*) ids="$ids C17";;
    esac
  done
  ids=$(echo $ids | tr ' ' '\n' | sort -u | tr '\n' ' ')
  cd $R && git apply $d/patch.diff || { echo "$name: patch does not apply"; continue; }
  for id in $ids; do
    s=$(date +%s)
    timeout 1800 $V/bin/gosym check $id --tier quick > /tmp/benign.$tag.log 2>&1; rc=$?
    e=$(( $(date +%s) - s ))
    v=$(grep -c '^VIOLATION' /tmp/benign.$tag.log); i=$(grep -c '^INCONCLUSIVE' /tmp/benign.$tag.log)
    verdict=quiet; [ $i -gt 0 ] && verdict=inconclusive; [ $v -gt 0 ] && verdict=FALSE-ALARM
    echo "$name $id $verdict rc=$rc ${e}s | $(grep -m1 -E '^(note: violation|INCONCLUSIVE)' /tmp/benign.$tag.log | cut -c1-220)"
  done
  git -C $R checkout -- . ; git -C $R clean -fdq
done
rm -rf $V $R /tmp/benign.$tag.log
